"""Sessions on the real transposon.density_data.DensityData / density_utils helpers (C08, C09, C15, C16).
One session = run the library stages of the pipeline on a case, then a history of loads (optionally
interrupted at a chosen step in a forked child that is killed with os._exit), then optional queries."""
import hashlib, json, logging, os, shutil, sys, tempfile, traceback
import numpy as np
import h5py

LOG = logging.getLogger("vh")
ARR = ["RHO_ORDERS", "RHO_SUPERFAMILIES"]


def sha(path):
    h = hashlib.sha1()
    with open(path, "rb") as f:
        h.update(f.read())
    return h.hexdigest()


def raw_columns(path):
    """per gene: (left column, right column, intra column) over both levels, as bytes digests"""
    with h5py.File(path, "r") as f:
        genes = [g.decode("utf-8") for g in f["GENE_NAMES"][:]]
        L = [f[a + "_LEFT"][()] for a in ARR]; R = [f[a + "_RIGHT"][()] for a in ARR]; I = [f[a + "_INTRA"][()] for a in ARR]
    cols = {}
    for k, g in enumerate(genes):
        cols[g] = tuple(hashlib.sha1(b"".join(np.ascontiguousarray(a[:, :, k]).tobytes() for a in X)).hexdigest() for X in (L, R, I))
    return genes, cols


def dd_columns(dd):
    genes = list(dd.gene_list)
    L = [dd.left_orders[()], dd.left_supers[()]]; R = [dd.right_orders[()], dd.right_supers[()]]; I = [dd.intra_orders[()], dd.intra_supers[()]]
    cols = {}
    for k, g in enumerate(genes):
        cols[g] = tuple(hashlib.sha1(b"".join(np.ascontiguousarray(a[:, :, k]).tobytes() for a in X)).hexdigest() for X in (L, R, I))
    return genes, cols


def classify(raw, got):
    """-> {gene: [left code, right code, intra code]} with codes L / R / LR (ambiguous) / I / ?"""
    out = {}
    for g, (l, r, i) in got.items():
        if g not in raw:
            out[g] = ["?", "?", "?"]; continue
        rl, rr, ri = raw[g]
        def code(x):
            if x == rl and x == rr:
                return "LR"
            return "L" if x == rl else "R" if x == rr else "?"
        out[g] = [code(l), code(r), "I" if i == ri else "?"]
    return out


def build_outdir(req, d):
    from vh import gen
    from vh.implworker import _pipeline_body
    gpath, tpath = os.path.join(d, "genes.tsv"), os.path.join(d, "tes.tsv")
    out = os.path.join(d, "out")
    ovl = os.path.join(out, "tmp", "overlap")
    os.makedirs(ovl)
    first, delta, last = req["case"]["windows"]
    if req.get("case_before"):
        # history: the pipeline ran on an earlier version of the annotation (e.g. other strands), the gene file was then corrected
        # in place and the same command repeated in the same output directory
        import time
        gen.write_pair(req["case_before"], gpath, tpath)
        _pipeline_body(req, d, gpath, tpath, out, ovl, range(first, last + 1, delta), req.get("genome", "G"))
        time.sleep(0.05)
        gen.write_pair(req["case"], gpath, os.devnull)
    else:
        gen.write_pair(req["case"], gpath, tpath)
    _pipeline_body(req, d, gpath, tpath, out, ovl, range(first, last + 1, delta), req.get("genome", "G"))
    return gpath, out


class _Rec:
    """records which gene annotation every DensityData was constructed with"""
    def __init__(self):
        self.pairs = []


_KEEP = None        # a session that keeps its GeneData objects: {path: GeneData}, the same object handed to every load of the session


def do_load(how, out, gpath, genome, only_chrom=None, rec=None, tamper=None):
    """-> list of DensityData (one per chromosome, or just one)"""
    from transposon.density_data import DensityData
    from transposon.gene_data import GeneData as _GeneData
    class GeneData:
        """GeneData.read through the session's store of objects, when the session keeps them (a caller that holds its GeneData)"""
        def __new__(cls, *a, **k):
            return _GeneData(*a, **k)
        @staticmethod
        def read(path):
            if _KEEP is None:
                return _GeneData.read(path)
            if path not in _KEEP:
                _KEEP[path] = _GeneData.read(path)
            return _KEEP[path]
    cache = os.path.join(out, "filtered_input_data", "input_cache")
    tamper = tamper or {}
    if rec is not None:
        orig = DensityData.__init__
        def wrapped(self, input_h5, gene_data, logger, sense_swap=True):
            rec.pairs.append([os.path.basename(input_h5), str(gene_data.chromosome_unique_id)])
            return orig(self, input_h5, gene_data, logger, sense_swap=sense_swap)
        DensityData.__init__ = wrapped
    try:
        if how in ("ctor", "verify", "noswap", "ctor_shuffled"):
            res = []
            for fn in sorted(os.listdir(out)):
                if not (fn.endswith(".h5") and os.path.isfile(os.path.join(out, fn))):
                    continue
                chrom = fn[len(genome) + 1:-3]
                if only_chrom is not None and chrom != only_chrom:
                    continue
                gd = GeneData.read(os.path.join(cache, "%s_%s_GeneData.tsv" % (genome, chrom)))
                p = os.path.join(out, fn)
                if how == "ctor_shuffled":
                    # a GeneData wrapped around a frame in an order of its own (not the result file's)
                    fr0 = gd.data_frame.drop(columns=["Genome_ID"])
                    # an order in which the row positions of the minus-strand genes are others than in the file whenever both strands
                    # occur: minus genes first (or last, if that is the file's order already); a shuffle otherwise
                    minus_first = sorted(range(len(fr0)), key=lambda i_: (fr0["Strand"].iloc[i_] != "-", i_))
                    plus_first = sorted(range(len(fr0)), key=lambda i_: (fr0["Strand"].iloc[i_] == "-", i_))
                    order_ = minus_first if minus_first != list(range(len(fr0))) else plus_first
                    fr = fr0.iloc[order_]
                    if list(fr.index) == list(fr0.index):
                        fr = fr0.sample(frac=1.0, random_state=11)
                    if len(fr) > 1 and list(fr.index) == list(gd.data_frame.index):
                        fr = fr.iloc[::-1]
                    res.append(DensityData(p, GeneData(fr, gd.genome_id), LOG))
                elif how == "ctor":
                    res.append(DensityData(p, gd, LOG))
                elif how == "noswap":
                    res.append(DensityData(p, gd, LOG, sense_swap=False))
                else:
                    res.append(DensityData.verify_h5_cache(p, gd, LOG))
            return res
        # directory-level constructors need a directory holding only the result files
        tag = hashlib.sha1(json.dumps(tamper, sort_keys=True).encode()).hexdigest()[:8] if tamper else "all"
        rdir = os.path.join(out, "..", "results_only_" + tag)
        os.makedirs(rdir, exist_ok=True)
        for fn in os.listdir(out):
            p = os.path.join(out, fn)
            if os.path.isfile(p) and not os.path.exists(os.path.join(rdir, fn)):
                if fn.endswith(".h5") and fn[len(genome) + 1:-3] in tamper.get("drop_results", []):
                    continue
                if fn.endswith(".h5") and tamper.get("multi_id") and fn[len(genome) + 1:-3] == tamper["multi_id"][0]:
                    # a private copy of this result file that stores a second chromosome identifier as well
                    shutil.copyfile(p, os.path.join(rdir, fn))
                    with h5py.File(os.path.join(rdir, fn), "r+") as f:
                        del f["CHROMOSOME_ID"]
                        f.create_dataset("CHROMOSOME_ID", data=[x.encode("utf-8") for x in tamper["multi_id"]], dtype=h5py.string_dtype())
                    continue
                os.link(p, os.path.join(rdir, fn))
        if tamper:
            gdir = os.path.join(out, "..", "genedata_" + tag)
            os.makedirs(gdir, exist_ok=True)
            for fn in os.listdir(cache):
                if fn.endswith("_GeneData.tsv") and fn[len(genome) + 1:-len("_GeneData.tsv")] not in tamper.get("drop_genedata", []) \
                        and not os.path.exists(os.path.join(gdir, fn)):
                    os.link(os.path.join(cache, fn), os.path.join(gdir, fn))
            cache = gdir
        if how == "example":
            # the reader example of the repository, run as a script on the gene annotation given to the pipeline and the directory of results
            import runpy
            script = os.path.join(os.environ.get("VERIF_REPO_DIR") or [p_ for p_ in sys.path if os.path.isfile(os.path.join(p_, "process_genome.py"))][0],
                                  "examples", "general_read_density_data.py")
            saved = sys.argv
            sys.argv = [script, gpath, rdir, genome + "_(.*?).h5"]
            made = []
            try:
                g_ = runpy.run_path(script, run_name="__main__")
                made = list(g_.get("processed_dd_data") or [])
            except (ValueError, KeyError, IndexError, TypeError) as e:
                # what the script does AFTER it has built its readers (a column for the order LTR and the window 500) is not the pairing
                if rec is None or not rec.pairs:
                    raise
            finally:
                sys.argv = saved
            for dd in made:
                try:
                    dd.data_frame.close()
                except Exception:
                    pass
            return []
        if how == "dir":
            return DensityData.from_list_genedata_dir_and_hdf5_dir(cache, rdir, LOG)
        gds = [GeneData.read(os.path.join(cache, fn)) for fn in sorted(os.listdir(cache)) if fn.endswith("GeneData.tsv")]
        import random
        random.Random(len(gds)).shuffle(gds)
        return DensityData.from_list_gene_data_and_hdf5_dir(gds, rdir, genome + "_(.*?).h5", LOG)
    finally:
        if rec is not None:
            DensityData.__init__ = orig


def crashing_load(how, out, gpath, genome, k, chrom):
    """fork; in the child interrupt the load of [chrom] after k elementary steps and die without cleanup"""
    pid = os.fork()
    if pid == 0:
        try:
            from transposon.density_data import DensityData
            state = {"n": 0}
            kk = k["k"]; flush = k.get("flush", True)
            def die(dd=None):
                if flush and dd is not None and getattr(dd, "data_frame", None) is not None:
                    try:
                        dd.data_frame.flush()
                    except Exception:
                        pass
                os._exit(99)
            real_copy = shutil.copyfile
            def copy(src, dst, *a, **kw):
                if kk == 0:
                    die()
                if kk == 1:                      # half of the bytes
                    data = open(src, "rb").read()
                    with open(dst, "wb") as f:
                        f.write(data[: len(data) // 2]); f.flush(); os.fsync(f.fileno())
                    die()
                r = real_copy(src, dst, *a, **kw)
                if kk == 2:
                    die()
                return r
            shutil.copyfile = copy
            real_idx = DensityData._index_of_gene
            def idx(self, name):
                state["n"] += 1
                if kk >= 3 and state["n"] == kk - 1:      # k=3: after 1 swap call has started -> before the 2nd gene
                    die(self)
                return real_idx(self, name)
            DensityData._index_of_gene = idx
            real_replace = os.replace
            def repl(a, b):
                if kk >= 3:
                    os._exit(99)                 # every swap done (or fewer minus genes than k): die before publishing
                return real_replace(a, b)
            os.replace = repl
            do_load(how, out, gpath, genome, only_chrom=chrom)
        except BaseException:
            os._exit(98)
        os._exit(0)
    _, status = os.waitpid(pid, 0)
    return os.waitstatus_to_exitcode(status)


def raising_load(how, out, gpath, genome, k, chrom):
    """interrupt the load of [chrom] by an exception (Ctrl-C) raised at the k-th gene of the swap loop"""
    from transposon.density_data import DensityData
    import h5py, errno
    state = {"n": 0, "w": 0}
    real_idx = DensityData._index_of_gene
    real_set = h5py.Dataset.__setitem__
    def idx(self, name):
        state["n"] += 1
        if state["n"] == k["k"]:
            raise KeyboardInterrupt()
        return real_idx(self, name)
    def setitem(self, args, val):
        # mode "eio": ONE transient I/O error at the k-th write into a dataset (the storage recovers at once)
        state["w"] += 1
        if state["w"] == k["k"]:
            raise OSError(errno.EIO, "Input/output error (injected once)")
        return real_set(self, args, val)
    if k.get("mode") == "eio":
        h5py.Dataset.__setitem__ = setitem
    else:
        DensityData._index_of_gene = idx
    try:
        do_load(how, out, gpath, genome, only_chrom=chrom)
        return "completed"
    except BaseException as e:  # noqa
        return type(e).__name__
    finally:
        DensityData._index_of_gene = real_idx
        h5py.Dataset.__setitem__ = real_set
        import gc
        gc.collect()


def interleaved_loads(out, gpath, genome, chroms, order):
    """Two loads through DensityData(...) of two DIFFERENT result files of one directory, run as two threads. Each pauses before it
    copies the raw file ("start"), after the copy has been made ("copied") and before it publishes the exchanged copy ("publish");
    `order` is the sequence [[loader, point], ...] in which the six pauses are released (each release lets that loader run to its next pause). Returns the outcome of each load."""
    import threading
    tl = threading.local()
    points = [(i, pt) for i in (0, 1) for pt in ("start", "copied", "publish")]
    gates = {k: threading.Event() for k in points}
    arrived = {k: threading.Event() for k in points}
    done = [threading.Event(), threading.Event()]
    real_copy, real_replace = shutil.copyfile, os.replace

    def pause(point):
        a = getattr(tl, "actor", None)
        if a is not None:
            arrived[(a, point)].set()
            gates[(a, point)].wait(timeout=20)

    def copy(src, dst, *a, **k):
        pause("start")
        r = real_copy(src, dst, *a, **k)
        pause("copied")
        return r

    def repl(a, b):
        pause("publish")
        return real_replace(a, b)

    outcomes = [None, None]

    def work(i):
        tl.actor = i
        try:
            for dd in do_load("ctor", out, gpath, genome, only_chrom=chroms[i]):
                dd.data_frame.close()
            outcomes[i] = "completed"
        except BaseException as e:  # noqa
            outcomes[i] = "%s: %s" % (type(e).__name__, str(e)[:120])
        finally:
            done[i].set()

    shutil.copyfile, os.replace = copy, repl
    ths = [threading.Thread(target=work, args=(i,), daemon=True) for i in (0, 1)]
    try:
        for t in ths:
            t.start()
        import time
        for i, pt in order:
            t0 = time.time()
            while not arrived[(i, pt)].is_set() and not done[i].is_set() and time.time() - t0 < 10:
                time.sleep(0.005)
            gates[(i, pt)].set()
            # let the released loader run up to its next pause (or to its end) before the next release
            nxt = {"start": (i, "copied"), "copied": (i, "publish")}.get(pt)
            t0 = time.time()
            while time.time() - t0 < 10 and not done[i].is_set() and not (nxt and arrived[nxt].is_set()):
                time.sleep(0.005)
    finally:
        for g_ in gates.values():
            g_.set()
        for t in ths:
            t.join(timeout=20)
        shutil.copyfile, os.replace = real_copy, real_replace
    return outcomes


def op_session(req):
    global _KEEP
    d = tempfile.mkdtemp(prefix="vh_rd_")
    genome = req.get("genome", "G")
    _KEEP = {} if req.get("keep_gene_data") else None
    try:
        gpath, out = build_outdir(req, d)
        raw = {}
        shas = {}
        for fn in sorted(os.listdir(out)):
            p = os.path.join(out, fn)
            if fn.endswith(".h5") and os.path.isfile(p):
                raw[fn] = raw_columns(p)
                shas[fn] = sha(p)
        steps_out = []
        for st in req["steps"]:
            if st.get("interleave") is not None:
                steps_out.append({"interleave": st["interleave"], "outcomes": interleaved_loads(out, gpath, genome, st["interleave"], st["order"]),
                                  "files": sorted(os.listdir(out))})
                continue
            if st.get("crash") is not None and st["crash"].get("mode") in ("raise", "eio"):
                r_ = raising_load(st["how"], out, gpath, genome, st["crash"], st.get("chrom"))
                steps_out.append({"crash": st["crash"], "outcome": r_, "files": sorted(os.listdir(out))})
                continue
            if st.get("crash") is not None:
                rc = crashing_load(st["how"], out, gpath, genome, st["crash"], st.get("chrom"))
                steps_out.append({"crash": st["crash"], "child_exit": rc,
                                  "files": sorted(os.listdir(out))})
                continue
            rec = _Rec()
            try:
                dds = do_load(st["how"], out, gpath, genome, rec=rec, tamper=st.get("tamper"))
            except BaseException as e:  # noqa
                steps_out.append({"how": st["how"], "error": "%s: %s" % (type(e).__name__, str(e)[:200]), "pairs": rec.pairs})
                continue
            loaded = []
            queries = []
            for dd in dds:
                try:
                    fn = genome + "_" + dd.unique_chromosome_id + ".h5"
                    genes, cols = dd_columns(dd)
                    loaded.append({"chrom": dd.unique_chromosome_id, "filename": os.path.basename(dd.data_frame.filename),
                                   "genes": genes, "cols": classify(raw[fn][1], cols) if fn in raw else None})
                    if st.get("queries"):
                        queries += run_queries(dd, st["queries"])
                finally:
                    try:
                        dd.data_frame.close()
                    except Exception:
                        pass
            so = {"how": st["how"], "loaded": loaded, "pairs": rec.pairs}
            if st.get("queries"):
                so["queries"] = queries
            if st.get("tables"):
                so["tables"] = run_tables(st, out, gpath, genome)
            steps_out.append(so)
        sh2 = {fn: sha(os.path.join(out, fn)) for fn in shas}
        rep = {"ok": True, "steps": steps_out, "raw_unchanged": sh2 == shas,
               "raw_genes": {fn: raw[fn][0] for fn in raw}}
        if req.get("raw_cells"):
            from vh.implworker_lib import read_result_h5
            rep["files"] = []
            for fn in sorted(raw):
                r = read_result_h5(os.path.join(out, fn)); r["file"] = fn
                rep["files"].append(r)
        return rep
    except BaseException as e:  # noqa
        return {"ok": False, "exc": type(e).__name__, "msg": str(e)[:300], "tb": traceback.format_exc()[-1500:]}
    finally:
        _KEEP = None
        shutil.rmtree(d, ignore_errors=True)


def run_queries(dd, spec):
    """every (gene, group, window, direction) lookup through get_specific_slice"""
    from transposon.density_utils import get_specific_slice
    out = []
    for cat, names in (("Order", dd.order_list), ("Superfamily", dd.super_list)):
        for name in names:
            for direction in ("Upstream", "Intra", "Downstream"):
                for w in ([None] if direction == "Intra" else dd.window_list):
                    for g in dd.gene_list:
                        try:
                            v = float(get_specific_slice(dd, cat, name, direction, w, dd._index_of_gene(g)).slice)
                        except BaseException as e:  # noqa
                            v = "%s" % type(e).__name__
                        out.append([dd.unique_chromosome_id, 0 if cat == "Order" else 1, name, {"Upstream": 0, "Intra": 1, "Downstream": 2}[direction],
                                    -1 if w is None else w, g, v])
    return out


def run_tables(st, out, gpath, genome):
    """the table helpers: add_hdf5_indices_... and add_te_vals_... over all chromosomes"""
    from transposon.density_utils import (add_hdf5_indices_to_gene_data_from_list_hdf5,
                                          add_te_vals_to_gene_info_pandas_from_list_hdf5)
    from transposon.import_filtered_genes import import_filtered_genes
    dds = do_load(st["how"], out, gpath, genome)
    try:
        cleaned = import_filtered_genes(gpath, LOG)
        cleaned = cleaned.sample(frac=1.0, random_state=7)      # a gene table in an order of its own
        withidx = add_hdf5_indices_to_gene_data_from_list_hdf5(cleaned, dds)
        res = []
        for (cat, name, direction, w) in st["tables"]:
            tab = add_te_vals_to_gene_info_pandas_from_list_hdf5(withidx, dds, cat, name, direction, w)
            col = [c for c in tab.columns if c not in withidx.columns][0]
            res.append({"query": [cat, name, direction, w], "column": col,
                        "rows": [[r["Gene_Name"], r["Chromosome"], int(r["Index_Val"]), float(r[col])] for _, r in tab.iterrows()]})
        return res
    finally:
        for dd in dds:
            try:
                dd.data_frame.close()
            except Exception:
                pass


def op_synthetic(req):
    """A result file of a given size written in the layout of MergeData (labels through the code's own
    write_vlen_str_h5py), random values, a gene annotation with a given share of minus genes; loaded through
    DensityData with the strand-aware view and compared, gene column by gene column, with the raw arrays."""
    import pandas as pd
    import transposon
    from transposon.merge_data import MergeData
    from transposon.gene_data import GeneData
    from transposon.density_data import DensityData
    n_o, n_s, n_w, n_g = req["shape"]
    rng = np.random.default_rng(req.get("seed", 0))
    d = tempfile.mkdtemp(prefix="vhsyn_")
    try:
        genes = ["g%06d" % i for i in range(n_g)]
        pm = req.get("minus", 0.1)
        strands = rng.choice(["+", "-", "."], size=n_g, p=[1 - pm - 0.05, pm, 0.05])
        if req.get("minus_tail"):                  # at least one minus gene among the last genes of the file
            strands[-1 - int(rng.integers(0, min(20, n_g)))] = "-"
        starts = np.arange(n_g) * 1000 + 1
        fr = pd.DataFrame({"Gene_Name": genes, "Chromosome": "ChrS", "Feature": "gene", "Start": starts.astype(float),
                           "Stop": (starts + 499).astype(float), "Strand": strands, "Length": 500.0}).set_index("Gene_Name")
        if req.get("shuffle_genes"):
            fr = fr.sample(frac=1.0, random_state=int(req.get("seed", 0)))
        gd = GeneData(fr, "G")
        path = os.path.join(d, "G_ChrS.h5")
        keys = {}
        with h5py.File(path, "w") as f:
            for lvl, n in (("O", n_o), ("S", n_s)):
                for side in ("LEFT", "INTRA", "RIGHT"):
                    key = getattr(MergeData, "_%s_%s" % (lvl, side))
                    shape = (n, 1 if side == "INTRA" else n_w, n_g)
                    ds = f.create_dataset(key, shape, dtype=MergeData.DTYPE, compression="lzf")
                    ds[...] = rng.random(shape, dtype=np.float32)
                    keys[(lvl, side)] = key
            transposon.write_vlen_str_h5py(f, [100 * (i + 1) for i in range(n_w)], MergeData._WINDOWS)
            transposon.write_vlen_str_h5py(f, genes, MergeData._GENE_NAMES)
            transposon.write_vlen_str_h5py(f, ["ChrS"], MergeData._CHROME_ID)
            transposon.write_vlen_str_h5py(f, ["O%03d" % i for i in range(n_o)], MergeData._ORDER_NAMES)
            transposon.write_vlen_str_h5py(f, ["S%03d" % i for i in range(n_s)], MergeData._SUPERFAMILY_NAMES)
        before = sha(path)
        with h5py.File(path, "r") as f:
            raw = {k: f[v][()] for k, v in keys.items()}
        dd = DensityData(path, gd, LOG)
        got = {("O", "LEFT"): dd.left_orders[()], ("O", "RIGHT"): dd.right_orders[()], ("O", "INTRA"): dd.intra_orders[()],
               ("S", "LEFT"): dd.left_supers[()], ("S", "RIGHT"): dd.right_supers[()], ("S", "INTRA"): dd.intra_supers[()]}
        minus = np.array([fr.loc[g, "Strand"] == "-" for g in genes])
        bad = np.zeros(n_g, dtype=bool)
        for lvl in ("O", "S"):
            exp_l = np.where(minus[None, None, :], raw[(lvl, "RIGHT")], raw[(lvl, "LEFT")])
            exp_r = np.where(minus[None, None, :], raw[(lvl, "LEFT")], raw[(lvl, "RIGHT")])
            for exp, side in ((exp_l, "LEFT"), (exp_r, "RIGHT"), (raw[(lvl, "INTRA")], "INTRA")):
                g_ = got[(lvl, side)]
                if g_.shape != exp.shape:
                    return {"ok": True, "n_bad_genes": n_g, "first_bad": "shape %s vs %s" % (g_.shape, exp.shape), "raw_unchanged": sha(path) == before,
                            "n_minus": int(minus.sum())}
                bad |= (g_ != exp).any(axis=(0, 1))
        idx = np.nonzero(bad)[0]
        try:
            dd.data_frame.close()
        except Exception:
            pass
        return {"ok": True, "n_bad_genes": int(bad.sum()), "first_bad": None if not len(idx) else {"gene_position": int(idx[0]), "strand": str(strands[idx[0]])},
                "raw_unchanged": sha(path) == before, "n_minus": int(minus.sum()), "values_per_array": int(n_s * n_w * n_g)}
    finally:
        shutil.rmtree(d, ignore_errors=True)


def op_lookup_unit(req):
    """The real get_specific_slice / _index_of_gene on a DensityData object whose label lists are given and whose six arrays are
    filled with codes that name their own position (array id, group index, window index, gene index): which cell does a lookup
    by labels select, or does it raise?"""
    import numpy as np
    from transposon.density_data import DensityData
    from transposon.density_utils import get_specific_slice
    out = []
    for c in req["cases"]:
        dd = DensityData.__new__(DensityData)
        dd.order_list, dd.super_list, dd.window_list, dd.gene_list = list(c["orders"]), list(c["supers"]), list(c["windows"]), list(c["genes"])
        ng, nw = len(dd.gene_list), len(dd.window_list)
        def arr(aid, ngroups, nwin):
            a = np.zeros((ngroups, nwin, ng), dtype=np.int64)
            for t in range(ngroups):
                for j in range(nwin):
                    for g in range(ng):
                        a[t, j, g] = ((aid * 100 + t) * 100 + j) * 100 + g
            return a
        no, ns = len(dd.order_list), len(dd.super_list)
        dd.left_orders, dd.intra_orders, dd.right_orders = arr(1, no, nw), arr(2, no, 1), arr(3, no, nw)
        dd.left_supers, dd.intra_supers, dd.right_supers = arr(4, ns, nw), arr(5, ns, 1), arr(6, ns, nw)
        res = []
        for cat, name, direction, w in c["queries"]:
            try:
                sl = get_specific_slice(dd, cat, name, direction, w)
                vals = [int(x) for x in np.asarray(sl.slice).reshape(-1)]
                res.append({"ok": True, "cells": vals})
            except (ValueError, KeyError, IndexError, TypeError) as e:
                res.append({"ok": False, "exc": type(e).__name__})
        gi = []
        for g in c["gene_queries"]:
            try:
                gi.append(int(dd._index_of_gene(g)))
            except IndexError:
                gi.append(None)
        out.append({"queries": res, "gene_indices": gi})
    return {"ok": True, "results": out}


def op_pair_unit(req):
    """The real DensityData._pair_by_chromosome on real HDF5 files that store the given chromosome identifiers and on objects
    carrying the given chromosome_unique_id: which GeneData (by position) does every file get, or does it raise?"""
    from transposon.density_data import DensityData
    out = []
    d = tempfile.mkdtemp(prefix="vh_pair_")
    try:
        for ci, c in enumerate(req["cases"]):
            paths = []
            for k, stored in enumerate(c["h5s"]):
                p = os.path.join(d, "c%d_f%d.h5" % (ci, k))
                with h5py.File(p, "w") as f:
                    dt = h5py.string_dtype()
                    f.create_dataset("CHROMOSOME_ID", shape=(len(stored),), dtype=dt)
                    if stored:
                        f["CHROMOSOME_ID"][:] = list(stored)
                paths.append(p)
            class GD:
                def __init__(self, i, cid):
                    self.pos, self.chromosome_unique_id = i, cid
            gds = [GD(i, cid) for i, cid in enumerate(c["gds"])]
            try:
                ps = DensityData._pair_by_chromosome(list(paths), list(gds), LOG)
                out.append({"ok": True, "pairs": [[paths.index(a), b.pos] for a, b in ps]})
            except (ValueError, KeyError, IndexError, TypeError) as e:
                out.append({"ok": False, "exc": type(e).__name__})
    finally:
        shutil.rmtree(d, ignore_errors=True)
    return {"ok": True, "results": out}


OPS = {"reader.pair_unit": op_pair_unit, "reader.lookup_unit": op_lookup_unit, "reader.session": op_session, "reader.synthetic": op_synthetic}
