#!/usr/bin/env python3
"""Regenerates /verif/MANIFEST.json from the table below (keeps the file valid at all times)."""
import json, os

V = os.path.abspath(os.path.join(os.path.dirname(__file__), ".."))
NOTE = ("Trusted: Coq 8.16.1 kernel/coqc and vm_compute (no native_compute); no axioms (Print Assumptions of every property "
        "theorem is checked to be 'Closed under the global context' on every run; the one exception is Props/C03float.v, which uses Flocq over Coq's reals "
        "and depends on the standard library's ClassicalDedekindReals.sig_forall_dec, sig_not_dec, FunctionalExtensionality.functional_extensionality_dep and Classical_Prop.classic); the translators py2gallina.py (arithmetic kernel), py2gallina_cache.py (cache decisions), "
        "py2gallina_revise.py (recursion of ReviseAnno over data frames: its table of pandas idioms), py2gallina_guards.py (refusal guards as boolean functions), py2gallina_reader.py (loading protocol of DensityData over symbolic file names), py2gallina_writers.py (writers of the intermediates as file-action lists), py2gallina_store.py (constructor of the density store over h5py's require_dataset), py2gallina_overlap.py (the loop that fills the overlap arrays, as an assignment log), py2gallina_merge.py (recogniser of MergeData's summation: parameter sets, slices, labels, the triple loop, as a density-array log), py2gallina_lookup.py (get_specific_slice, its verifications and index dictionaries over the label lists), py2gallina_jobs.py (the file names carried by the job and result tuples to the readers of the density stage), py2gallina_pair.py (DensityData._pair_by_chromosome statement by statement: dicts as association lists, sets as distinct elements, list(s)[0] as an oracle), py2gallina_flow.py (failure propagation: every def of the pipeline modules and the __main__ block as try/except/finally/with/loop skeletons; polls of a queue and the tolerated setrlimit failure are not failures; an uncaught exception of the main block is a non-zero exit status; an exception in a pool worker is re-raised by map) and py2gallina_cf.py (queue/event loops as interaction programs); the "
        "correspondence harness (generators, drivers, abstraction, float rule); CPython/pandas/numpy/h5py. "
        "Modelled, not verified: int32/float32 narrowing, pandas/h5py semantics (tied by execution).")

CHECKS = {
    "C01": dict(
        technique="Coq proof (refinement model -> naive spec, induction over lists) + translated kernel equivalence (lia) + the loop of OverlapWorker.calculate translated from /repo on every run and proved to fill exactly the labelled rows + differential execution",
        text="Theorems c01_cells/keys/names/windows/total over the Gallina model of the data path, for all inputs and window triples; "
             "tie 1: arithmetic kernel of gene_datum.py/overlap.py/revise_annotation.py/process_genome.py re-translated and proved equal to the model kernel on every run; "
             "the recursion of ReviseAnno (call_merge/merge_by_like and helpers) re-translated and proved equal to Model.Revise.revise; "
             "c01_code_rows / c01_code_cells: the loop of OverlapWorker.calculate (with _reset, the filters, the index dictionaries, the slice functions) re-translated into an assignment log, which for unique known names and windows "
             "holds at (gene index, window index) the per-TE overlaps of the gene of that name and that window - the terms the density numerator sums - and nothing else; "
             "c01_merge_cells / c01_code_pipeline_cells: MergeData.sum (_process_sum, the three parameter sets of both axes, slices, labels) re-translated; in every order of the six summations the density cell at (axis, side, group index, window index, gene index) is the model's cell (numerator, divisor) of the group, gene and window of those names; "
             "c01_code_end_to_end: on the data of any result file of a successful model run (genes of the chromosome, windows, revised TE rows) the two translated stages leave, at the cell of a group / window / gene index, the naive specification (covered positions, each once, over the region length) for the group, window and gene of those names; "
             "unit differentials: the translated loops vs the real OverlapWorker.calculate / MergeData.sum on small containers, every array cell; "
             "tie 2: generated annotation pairs through the real library stages (windows from the code's parse_algorithm_config) vs the model (vm_compute) and vs the brute-force statement.",
        design="DESIGN.md 6 C01"),
    "C02": dict(
        technique="Coq proof (seed-and-absorb merge keeps coverage, output separated; induction on fuel/lists) + recursion of ReviseAnno translated from /repo on every run and proved equal to the model (strong induction on the frame, unique row labels) + translated kernel + differential execution",
        text="Theorems c02_cover/disjoint/presence/chroms/length/order_free for every TE table; c02_code_refines_model / c02_code_cover_disjoint: call_merge, merge_by_like, "
             "hit_scan_overlapping, determine_seed_stop, clear_array_by_index, set_seed_stop, update_data_frame as translated from the current sources never raise, terminate within 2n+1 calls and compute "
             "Model.Revise.revise on every group with unique row labels; hit test, stop update and length formula also through the kernel translator; the per-group sort, group-by, relabelling "
             "and concatenation of iterate_call_merge/_merge_all tied by running PreProcessor.process on generated tables (every fourth in an output directory used before) and comparing "
             "per-group covered sets, disjointness and lengths at Revised_*.tsv and *_TEData.tsv.",
        design="DESIGN.md 6 C02"),
    "C03": dict(
        technique="Coq proof (corollary of the C01 refinement: 0 <= cnt <= range length, divisor > 0, also for the cells of the translated code; Flocq: binary32 rounding of such a quotient is a binary32 number in [0,1]) + differential execution with range check and bit-exact binary32(N/D) check of every cell",
        text="Theorem c03_range over the model for all inputs; c03_code_range: every cell the translated overlap loop and summation leave for a real group, on the data of any file of a successful model run, is a pair with 0 <= numerator <= divisor, 0 < divisor; c03_float32 / c03_float32_ends (Flocq, depends on the standard library's real-number axioms, named in the trusted base): the binary32 rounding of N/D is in [0,1], "
             "representable, and exact at 0 and 1; pile-up generator through the real library stages (every fourth case in an output directory used before), every cell of every file range-checked and "
             "compared bit for bit with binary32(N/D); thorough: Arabidopsis slice via the CLI. That numpy's float32 division is the IEEE correctly rounded quotient is trusted and exercised by the bit-exact comparison.",
        design="DESIGN.md 6 C03"),
    "C04": dict(
        technique="Coq proof (cells depend on the rows only as a multiset: Permutation; transported to the translated overlap loop, summation and lookup through the bridge code_cell = f_cell) + differential execution over row orders",
        text="Theorems c04_runs/c04_perm for all permutations of either file; each generated pair run in 4-6 row orders through the real stages, outputs compared with each other and with the model; the check also builds Props/C01code.v (translated loop of OverlapWorker.calculate: rows are addressed by gene NAME, so the position of a gene in the arrays is the only thing a row order can change) and Props/CodeCell.v (code_cell_is_f_cell: the arrays of the translated stages read through the translated lookup are the model's labelled cells; c04_code_perm: permuting the rows of either annotation leaves every cell the translated code yields for given labels unchanged).",
        design="DESIGN.md 6 C04"),
    "C05": dict(
        technique="Coq proof (locality of a chromosome's file; refusal iff chromosome sets differ) + the file names carried by the job / result tuples translated from /repo on every run (the density stage opens the overlap job's own files) + _validate_split translated from /repo on every run and proved equal to the model's + differential execution",
        text="Theorems c05_local/genes/files/reject; c18_code_validate_split(_iff): PreProcessor._validate_split as translated from the current sources accepts two sorted key lists iff they are equal; c05_code_overlap_files / c05_code_density_reads_own_files: the gene cache, TE cache and overlap file of a chromosome, followed through _OverlapJob, OverlapResult and MergeJob as translated from the current sources, are the files the density stage of that chromosome opens; c05_code_local: the cells the translated code yields for a chromosome depend only on that chromosome's genes and TEs; variants differing only on other chromosomes and chromosome-set mismatches (equal and unequal cardinality, interleaving name orders) through the real stages and the CLI.",
        design="DESIGN.md 6 C05"),
    "C06": dict(
        technique="Coq proof (count invariant under shift and reflection, monotone in the range; transported through the C01 refinement; all three also for the cells the translated overlap loop and summation compute and the translated lookup finds) + differential execution on triples",
        text="Theorems c06_shift/mirror/monotone for all shifts, reflection points and windows (untruncated left windows); c06_code_monotone: the covered count the translated code yields for a gene, group and side never decreases from a window of the file to a larger one; c06_code_shift / c06_code_mirror: for the runs on a pair and on the pair shifted by k / reflected about M (both well formed), the cell of the translated code for the shifted pair - for the reflected pair on the other side - under the same labels is the cell of the original, left windows untruncated; triples input/shifted (to 2^31-1)/mirrored through the real stages compared with each other.",
        design="DESIGN.md 6 C06"),
    "C07": dict(
        technique="Coq proof (monotonicity and sub-additivity of the covered count; transported through the C01 refinement) + oracle-free consistency pass",
        text="Theorems c07_total_ge_group/total_le_sum/order_le_sum_supers/super_le_order; every cell of every generated output checked for the four relations on reconstructed counts, plus model correspondence; the check also builds Props/C01code.v and Props/C01merge.v (translated loop of OverlapWorker.calculate; translated MergeData.sum: the mask of a group selects the TEs whose column equals the group's NAME) and runs the unit differential of the translated summation against the real MergeData.sum.",
        design="DESIGN.md 6 C07"),
    "C08": dict(
        technique="Coq proof (array position <-> labels: first/last-occurrence index functions return the labelled cell; genes of a file) + get_specific_slice, its verifications and index dictionaries translated from /repo on every run and proved equal to the label-level specification, composed with the translated MergeData.sum + exhaustive queries through the real reader and table helpers",
        text="Theorems c08_lookup/unknown/table/bijection/genes over the layout + reader model; every (gene, group, window, direction) query of every generated file through DensityData + get_specific_slice "
             "and the add_* table helpers (gene table in its own row order) compared with the array cell of the labels and with the C01 value; group names differing by case / non-ASCII; the check also builds Props/C01code.v (translated loop of OverlapWorker.calculate: the row at gene index i, window index j belongs to names[i], windows[j]; nothing outside the index ranges is assigned) and Props/C01merge.v (translated MergeData.sum: the density cell at group index t, window index j, gene index i belongs to the group, window and gene of those names) and Props/C08code.v (c08_code_slice / c08_code_refused / c08_code_lookup: the translated get_specific_slice selects, by TE name, window value, direction and gene name, exactly the cell of those labels, and refuses everything else); unit differential of the translated lookup against the real function on label layouts with repeated labels and invalid queries.",
        design="DESIGN.md 6 C08"),
    "C09": dict(
        technique="Coq proof (swap of first-occurrence columns for duplicate-free minus names = strand-aware view, induction over the name list) + _swap_strand_vals / _index_of_gene / DensityData.__init__ translated from /repo on every run and proved equal to the model + column-by-column comparison on real files",
        text="Theorems c09_view/defined/minus/plus_or_unstranded/intra; c09_code_swap_loop: the exchange loop of the code, as translated, is the model's swap_all; c09_code_view (Props/C09code.v): the first load through the translated constructor serves exactly the raw columns with left and right exchanged for the minus-strand genes, leaves the raw file as it was and publishes that view as the trusted copy; result files x strand mixtures (all +, all -, '.', mixed, shuffled rows) x every constructor (incl. a GeneData in another row order), "
             "each gene column of both TE levels classified against the raw arrays and compared with the model; raw file hashed before/after.",
        design="DESIGN.md 6 C09"),
    "C10": dict(
        technique="Coq proof (steps on distinct paths commute; tasks assigning disjoint cells commute under Permutation; sorted-set name axes; totality of the run) + MergeData.sum translated from /repo on every run with the order of its six summations a parameter: every order gives the same labelled cells + differential execution over schedules",
        text="Theorems c10_jobs_commute/job_local/tasks_perm/names_perm/names_ext/total; c10_code_order_free (Props/C14code.v): on the data of any file of a successful model run, the arrays the translated summation leaves under ANY two orders containing the six summations (random.shuffle in the code) give the same cell for every lookup by labels; each input through the real library stages with merge jobs in sorted/reversed/shuffled order and several seeds of Python's random, "
             "and through the CLI with -n 1/2/4/16, --single_process, hash seeds, under CPU load; all runs must complete with identical names, labels and values. "
             "The OS scheduling of real processes cannot be exhibited by the model: the CLI part is exploration (stated in the evidence).",
        design="DESIGN.md 6 C10"),
    "C11": dict(
        technique="Coq proof (invariant of a labelled transition system, induction over schedules, any k) + _ProgressBars.handle_chrome translated from /repo on every run into an interaction program and proved in lockstep with the model under every schedule + deterministic-scheduler replay on the real class",
        text="Theorems c11_all_collected/never_more/terminates for every number of results and every interleaving; c11_code_refines_model/all_collected/never_more/terminates: the same statements about "
             "handle_chrome (+ _pop, _collect) as translated from the current sources; legacy loop refuted (c11_legacy_refuted); the check also builds the translated cache decisions (_filter_jobs: every job is completed or to do) and Props/C05code.v (one merge job per overlap result, computed or reused, naming the same three files) and Props/C17code.v (no function of the overlap stage swallows a failed hand-over of a result). "
             "Schedules enumerated from the model are replayed on the real _ProgressBars (instrumented queue/event, no hook) and compared with the model; CLI runs with many chromosomes count result files. "
             "Modelled: atomic steps = flag test, pop(+append), put, set; the GIL / Manager proxies / pool teardown are not modelled.",
        design="DESIGN.md 6 C11"),
    "C12": dict(
        category="proof",
        technique="Coq proof (crash = any prefix of each chromosome's writes, any worker interleaving, any ties; invariant over all histories) + writers, cache decisions and merge guards translated from /repo on every run (every writer atomic at every crash point) + kill at every file operation of the real command line",
        text="Theorem c12_code_writers_atomic: ReviseAnno._write, GeneData.write, TransposonData.write and _calculate_overlap_job as translated from the current sources never leave a partial file under the final name, at any crash point; "
             "c12_crash_safe/success_is_current/invariant over Model/Cache.v: from every reachable disk, killing a run anywhere and repeating the command gives each chromosome the uninterrupted outcome or an error; pinned rules refuted (c12_legacy_refuted, D16). "
             "Tie: the launcher SIGKILLs the whole process group at every DataFrame.to_csv byte offset / os.replace / h5py create, create_dataset, setitem, flush, close (with/without flush) / per-gene and per-task step of observed runs in 8 scenarios; "
             "atomicity of every final-named intermediate, membership of the directory in the model's crash states, the re-run against the model and against the uninterrupted run are checked. "
             "Partial: byte-level crash consistency of HDF5 (torn pages) and power-loss reordering are not modelled; result files are always rewritten by a re-run.",
        design="DESIGN.md 6 C12"),
    "C17": dict(
        category="proof",
        technique="Coq proof (a failed run leaves a crash state; any number of failed runs then a clean run = clean outcome or error) + writers and the overlap error path translated from /repo on every run + the failure-propagation skeleton of every function of the pipeline modules and of the main block translated from /repo on every run and checked against two criteria whose meaning is proved for every execution (no handler / finally / __exit__ swallows an exception) + fault injection (ENOSPC / worker exceptions) on the real command line",
        text="Theorem c17_code_overlap_error_path: after an exception anywhere in the overlap calculation the partial file is removed, the final name untouched or complete, and the exception raised again (code as translated); c17_rerun/c17_faults over Model/Cache.v. The first sentence of C17 (a failing step gives a non-zero exit status): c17_code_nothing_swallowed / c17_code_failure_is_reported (Props/C17code.v) - in every execution of the big-step semantics of Model/Flow.v, a function of the pipeline and reader modules (199 defs) or the main block ends normally only if every statement it executed completed: no except clause (other than polls of a queue and the tolerated setrlimit failure), finally clause, context manager or sys.exit(<possibly zero>) turns a failure into a normal end (noswallow_sound, by mutual induction over derivations); trusted there: an uncaught exception of the main block is a non-zero exit status, pool.map re-raises a worker's exception. It is also checked on every run by raising OSError(ENOSPC) at every "
             "create/write/close/rename of every intermediate and result file and RuntimeError in per-gene overlap steps and merge tasks, in the main process and in pool workers, singly and in pairs. "
             "Then as C12: atomic intermediates, crash-state membership, re-run against model and uninterrupted run.",
        design="DESIGN.md 6 C17"),
    "C13": dict(
        technique="Coq proof (invariant of the cache state machine over all histories of edits/touches/runs/interrupted runs, any number of chromosomes, any mtime ties; refresh theorem for every disk) + cache decisions and merge guards translated from /repo on every run and proved equal to the model's + per-run correspondence on real histories",
        text="Theorems c13_code_windows_guard/gene_names_guard/chromosome_guard: MergeData's three guards as translated from the current sources accept an overlap file iff its windows, gene names and chromosome id EQUAL the request's, and MergeData.sum calls them first; c13_code_checked_sum (Props/C13merge.v): MergeData.sum as a whole - the translated guards followed by the translated summations, composed by the merge translator - refuses an overlap file exactly when one of its labels differs, and otherwise yields the model's cells for the REQUEST's windows and genes; "
             "c13_rerun/refresh/fresh_directory/windows over Model/Cache.v (symbolic versions, the mtime comparisons of the code as freshness relations, atomic writes, tie oracle); pinned reuse rules refuted (c13_legacy_refuted). "
             "Histories of runs with every flag subset, edits of either annotation and the windows (to a superset, subset, front-trimmed list, same count, same ends, shifted list), touches, mtime-preserving edits, backdated caches and runs killed during the revision are executed on the real command line under the launcher; "
             "every run is abstracted (contents against fresh-directory references, flags from os.path.getmtime) and compared with the model's run: files rewritten, contents afterwards, exit status, every result cell. "
             "Assumed, named in the evidence: no file carries an mtime later than the clock (a future-dated overlap file defeats the refresh; outside the property's 'touch'); edits stay within the existing chromosomes.",
        design="DESIGN.md 6 C13"),
    "C14": dict(
        technique="Coq proof (the data-path model uses names only under equality: injective renamings commute with the run; first run vs re-run from the cache model) + renaming pools through the real command line, twice per directory",
        text="Theorems c14_rename/verbatim/same_outcome over Model/Pipeline.v for ALL injective renamings of chromosomes, genes, orders, superfamilies avoiding the reserved labels (numeric-looking, case-differing, non-ASCII names are just other values), "
             "and c14_first_run/first_vs_rerun over Model/Cache.v. Tie: name pools (numeric-looking incl. '007'/'7'/'1e3', case families, non-ASCII, blanks/punctuation/quotes, boolean- and NA-looking words, prefix families) applied per category and together; "
             "c14_code_rename (Props/C14code.v): the arrays the translated overlap loop and summation compute for the renamed pair, looked up by the renamed labels through the translated lookup, hold the numbers of the original pair under the original labels, for all such renamings and any orders of the six summations. Renamed pair run twice in one directory through the CLI: first run vs re-run (exit, labels, values), renamed vs original through the inverse renaming, labels verbatim, model on the renamed pair.",
        design="DESIGN.md 6 C14"),
    "C15": dict(
        technique="Coq proof (invariant of the load/crash state machine over all histories) + DensityData.__init__ / verify_h5_cache translated from /repo on every run over symbolic file names and proved to act and serve as the model's load + histories with kills, exceptions and interleaved loads on real files",
        text="Theorems c15_idempotent/raw_untouched over histories of loads through every constructor interleaved with loads interrupted at any step; c15_code_constructor / verify_h5_cache / never_partial_under_trusted_name about the code as translated, and c15_code_idempotent: every load of ANY sequence of loads through the translated constructor and verify_h5_cache serves the strand-aware view and leaves the raw file as it was; legacy behaviours refuted. "
             "Exhaustive constructor sequences (length <= 2 quick / 3 thorough) and first loads killed (fork + os._exit, with/without HDF5 flush) or interrupted by an exception at every step, followed by loads, on real files; two loads of different files of one directory interleaved at their start / copy / publish steps.",
        design="DESIGN.md 6 C15"),
    "C16": dict(
        technique="Coq proof (pairing by stored chromosome id: sound, complete, rejects every mismatch; legacy sorted-name pairing refuted by computation) + DensityData._pair_by_chromosome translated from /repo on every run, statement by statement, and proved equal to the pairing specification for all lists of files and gene annotations + name-set pools on real directories + unit differential of the translated function against the real one",
        text="Theorems c16_paired/accepts/mismatch_is_error over the model; c16_code_is_spec / c16_code_paired / c16_code_mismatch_is_error / c16_code_accepts / c16_code_constructed about the code as translated from the current sources: "
             "for every list of result files (each storing any list of chromosome identifiers: none, one, several, repeated) and every list of GeneData, the function returns one pair per file, in file order, of a file storing exactly one chromosome with the GeneData of that chromosome, "
             "and refuses two GeneData of one chromosome and any file that stores no, several, or an unknown chromosome, wherever it stands in the list (the order in which Python iterates a set enters as an oracle of which only pick {x} = x is assumed); both directory constructors build the object of a pair from that pair's own two components. "
             "Tie: the translated function against the real _pair_by_chromosome on generated lists (real HDF5 files with 0-3 stored identifiers, duplicated GeneData, unknown chromosomes at every position); chromosome-name pools around file-name sorting (prefix families, dots, punctuation, digits, case) -> real result directories -> both directory constructors, "
             "recording which annotation each file received and what was served; tampered (mismatching) directories - also with all genes on the plus strand, so that no later step can refuse by accident, and with a result file storing two chromosomes - must be refused.",
        design="DESIGN.md 6 C16"),
    "C18": dict(
        technique="Coq proof (rejection for every row position and surrounding content; results only after all checks) + check_strand and _validate_split translated from /repo on every run and proved equal to the model's checks + malformed-input stream",
        text="Theorems c18_dup/strand/column/chroms/no_result over the model of the import checks (any position of the offending row); c18_code_results_after_validation (Props/C17code.v): in every execution of the translated main block, whatever fails, a density job - the only writer of result files - starts only after PreProcessor.process (import, validation, split) and the overlap stage have completed (flow_sound), and c18_code_refused_pair_no_density_job: if preprocessing fails, no density job starts at all and the block ends with the exception (the block calls preprocessing at most once: calls_bound_sound); c18_code_check_strand / c18_code_validate_split / c18_code_te_columns: the code's strand whitelist, chromosome check and explicit TE-column test, as translated, "
             "are the model's (the translator also checks that import_filtered_genes calls check_strand and indexes by Gene_Name with verify_integrity=True); one defect inserted at first/last/random (thorough: every) row position "
             "of generated pairs through the real library stages (gene-side defects also in an output directory where the valid pair was processed before, files edited in place with older mtimes) and a sample through the CLI: must raise / exit non-zero with no <genome>_<chrom>.h5 written.",
        design="DESIGN.md 6 C18"),
    "C19": dict(
        technique="Coq proof (case analysis of the open sequence; induction over open/write histories) + _DensitySubset.__init__ and the methods it calls translated from /repo on every run and proved equal to the model's open + histories on real HDF5 files",
        text="Theorem c19_code_refines_model: the constructor as translated from the current sources equals Model.Store2.open for every configuration and stored group; c19_accept_iff_and_unchanged/error_kind/opens_preserve/reopen_accept_iff/reachable over the model of _DensitySubset; "
             "random histories (equal / length+-1 / one element / order differences in each of the three lists, several groups) on real scratch HDF5 files, "
             "group contents digested before/after every open and compared with the model. Domain: non-empty identifiers (a stored empty name is h5py's 'uninitialised' marker; c19_empty_name_note).",
        design="DESIGN.md 6 C19"),
    "C20": dict(
        technique="Coq proof (invariant accepted ++ pending = map exec taken over all answer scripts) + WorkerProcess.run translated from /repo on every run into an interaction program and proved equal to the model on every script + scripted execution of the real run() loop",
        text="Theorems c20_no_loss_no_dup_in_order/sentinel_complete/exit_causes for every script of queue-full / queue-empty / stop answers; c20_code_refines_model/no_loss_no_dup_in_order/sentinel_complete/total: "
             "the same statements about run() (+ _send_result) as translated from the current sources, incl. no uncaught queue exception; legacy refuted. "
             "Well-typed scripts exhaustively to length 10 (13 thorough) and random ill-typed scripts to length 40 executed on the real WorkerProcess.run() with stub queues and compared with the model.",
        design="DESIGN.md 6 C20"),
}

PENDING = {}


def main():
    props = [json.loads(l) for l in open(os.path.join(V, "properties.jsonl"))]
    checks = []
    for p in props:
        pid = p["id"]
        if pid not in CHECKS:
            continue
        c = CHECKS[pid]
        checks.append({
            "property_id": pid,
            "quick_cmd": "./check %s --tier quick" % pid,
            "thorough_cmd": "./check %s --tier thorough" % pid,
            "evidence_file": "/verif/evidence/%s.json" % pid,
            "replay_cmd_template": "./check %s --replay {path}" % pid,
            "engine": "coq+harness",
            "level_claimed": {"category": c.get("category", "proof"), "text": c["text"], "design_ref": c["design"]},
            "level_note": c.get("note", NOTE),
            "technique": c["technique"],
        })
    na = [{"property_id": p["id"], "reason": PENDING.get(p["id"], "check not built yet in this development (machine-checked model and correspondence under construction; see DESIGN.md 10)")}
          for p in props if p["id"] not in CHECKS]
    m = {
        "version": 1,
        "setup_cmd": "cd /verif && coq/build.sh",
        "hooks": {"guard": "TE_DENSITY_VERIF", "enable": "no hook in /repo is needed: checks drive the code from outside (PYTHONPATH=/repo, TE_DENSITY_VERIF=1 set for children)",
                  "baseline_off_cmd": "cd /repo && /venv/bin/python -m pytest -ra -q -p no:cacheprovider --timeout=900 --continue-on-collection-errors",
                  "source_commits": [], "add_only": True},
        "engines": [{"name": "coq+harness", "path": "/verif/check", "serves_properties": [c["property_id"] for c in checks],
                     "kind_free_text": "Coq 8.16 development under /verif/coq (full .vo build) + Python ast->Gallina translator + differential correspondence harness"}],
        "checks": checks,
        "not_applicable": na,
        "notes": "fix: commits in /repo are listed in /verif/known_findings.json (fixed entries suppress nothing).",
    }
    json.dump(m, open(os.path.join(V, "MANIFEST.json"), "w"), indent=1)


if __name__ == "__main__":
    main()
