#!/usr/bin/env python3
"""usage: seedkeep.py <seed-dir> <name> <caught-by text>   -> /verif/seeded/<name>/{patch.diff,demo.py,meta.json}"""
import json, os, shutil, sys
sd, name, caught = sys.argv[1], sys.argv[2], sys.argv[3]
dst = os.path.join("/verif/seeded", name)
os.makedirs(dst, exist_ok=True)
for f in ("patch.diff", "demo.py"):
    shutil.copyfile(os.path.join(sd, f), os.path.join(dst, f))
m = json.load(open(os.path.join(sd, "meta.json")))
m["confirmed_by_me"] = ("scratch worktree of /repo HEAD: demo.py exits 0 without the patch and non-zero with it; "
                        "pytest with the patch: 211 passed (harness/seedtest.sh)")
m["checks_run_and_outcome"] = caught
json.dump(m, open(os.path.join(dst, "meta.json"), "w"), indent=1)
print("kept", dst)
