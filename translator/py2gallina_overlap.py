#!/usr/bin/env python3
"""py2gallina_overlap: translate the overlap calculation loop of transposon/overlap.py - OverlapWorker.calculate with _reset,
_filter_gene_names, _filter_windows, _map_gene_names_2_indices, _map_windows_2_indices and OverlapData.left_right_slice /
intra_slice - into a Gallina function that lists, in program order, every assignment to the three overlap arrays
(Model/OverlapArr.v).

usage: py2gallina_overlap.py <repo> <outdir>     writes <outdir>/GenOverlap.v and <outdir>/overlap.status

Symbolic execution, statement by statement; a statement outside the table is refused.  Table (trusted):
    self._filter_gene_names(names, genes)   `for name in names: if name not in genes.names: <log> else: yield name`
                                            filter (fun n => memN n known) names
    self._filter_windows(windows)           `for w in windows: if w < 0: <log> else: yield w`     filter (fun w => negb (w <? 0)) windows
    {x: i for i, x in enumerate(xs)}        the index of the LAST occurrence of x in xs (a later key overwrites)
    d[x] on such a dict                     that index; KeyError (the calculation fails) when absent
    genes.get_gene(name)                    gd name : the gene's (start, stop, length)
    sink.intra_slice(g) / sink.left_right_slice(w, g)   the tuples the two functions return, read as (gene index, window index) with the
                                            third component slice(None) = the whole TE axis; intra uses the constant window index it returns
    sink.<left|intra|right>[slice] = Overlap.<left|intra|right>(gene_datum, transposons[, window])
                                            one assignment: array, gene index, window index, the row map (fun t => gen_overlap_.. t) tes
                                            (gen_overlap_* are the kernel functions translated by py2gallina.py)
    for x in xs: ...                        fold_left over xs, in order
    `with self._data as sink`, `path = ...`, `if progress: progress()`, `return path`, logging        no effect on the arrays
Labels: the translator also checks where the requested names and the stored labels come from, and emits them as functions of
the gene container's names / the filtered windows:
    overlap_manager._overlap_job          gene_names = list(gene_data.names)                         gen_job_gene_names
    overlap_manager._calculate_overlap_job  overlap.calculate(GeneData.read(job.gene_path), TransposonData.read(job.te_path),
                                            job.window_range, job.gene_names, ...)
    OverlapData._create_sets              self.gene_names = list(cfg.genes.names); self.windows = list(cfg.windows)
                                          (from_param: genes=genes, windows=windows)                 gen_stored_gene_names, gen_stored_windows
    OverlapData._write_gene_names / _write_windows   dset[:] = self.gene_names / self.windows
Fail-closed: anything else aborts with exit status 2 and the generated file does not type-check.
"""
import ast, os, sys

FNAME = "transposon/overlap.py"


class Unsupported(Exception):
    pass


def fail(node, msg):
    raise Unsupported("%s:%s: %s" % (FNAME, getattr(node, "lineno", "?"), msg))


def dotted(e):
    parts = []
    while isinstance(e, ast.Attribute):
        parts.append(e.attr)
        e = e.value
    if isinstance(e, ast.Name):
        parts.append(e.id)
        return ".".join(reversed(parts))
    return None


def body_of(fn):
    return [s for s in fn.body if not (isinstance(s, ast.Expr) and isinstance(s.value, ast.Constant))]


def is_log(st):
    if isinstance(st, ast.Expr) and isinstance(st.value, ast.Call):
        d = dotted(st.value.func) or ""
        return d.split(".")[-1] in ("debug", "info", "warning", "error", "critical") and "logger" in d
    if isinstance(st, ast.Assign) and len(st.targets) == 1 and isinstance(st.targets[0], ast.Name) and st.targets[0].id == "msg":
        return True
    return False


class T:
    def __init__(self, repo):
        tree = ast.parse(open(os.path.join(repo, FNAME)).read())
        self.classes = {n.name: {m.name: m for m in n.body if isinstance(m, ast.FunctionDef)} for n in tree.body if isinstance(n, ast.ClassDef)}
        for c in ("OverlapWorker", "OverlapData", "Overlap"):
            if c not in self.classes:
                fail(tree, "class %s not found" % c)
        self.n = 0

    def fresh(self, p):
        self.n += 1
        return "%s%d" % (p, self.n)

    # ---- the small helpers, each checked against its expected shape and given its reading
    def check_filter(self, name, kind):
        fn = self.classes["OverlapWorker"].get(name) or fail(None, "%s not found" % name)
        b = body_of(fn)
        if len(b) != 1 or not isinstance(b[0], ast.For) or b[0].orelse or not isinstance(b[0].target, ast.Name):
            fail(fn, "%s is not one loop" % name)
        loop = b[0]
        x = loop.target.id
        lb = [s for s in loop.body if not is_log(s)]
        if len(lb) != 1 or not isinstance(lb[0], ast.If):
            fail(fn, "%s: loop body is not one if" % name)
        iff = lb[0]
        test = ast.unparse(iff.test).replace(" ", "")
        params = [a.arg for a in fn.args.args][1:]
        if ast.unparse(loop.iter) != params[0]:
            fail(fn, "%s does not iterate over its first parameter" % name)
        yes = [s for s in iff.body if not is_log(s)]
        no = [s for s in iff.orelse if not is_log(s)]
        def yields(ss):
            return len(ss) == 1 and isinstance(ss[0], ast.Expr) and isinstance(ss[0].value, ast.Yield) and ast.unparse(ss[0].value.value) == x
        if kind == "names":
            if test == "%snotin%s.names" % (x, params[1]) and not yes and yields(no):
                return
            if test == "%sin%s.names" % (x, params[1]) and yields(yes) and not no:
                return
        else:
            if test == "%s<0" % x and not yes and yields(no):
                return
            if test in ("%s>=0" % x, "0<=%s" % x) and yields(yes) and not no:
                return
        fail(fn, "%s does not keep exactly the %s" % (name, "names of the gene container" if kind == "names" else "non-negative windows"))

    def check_enum_dict(self, name):
        fn = self.classes["OverlapWorker"].get(name) or fail(None, "%s not found" % name)
        b = body_of(fn)
        p = [a.arg for a in fn.args.args]
        p = p[-1]
        ok = len(b) == 1 and isinstance(b[0], ast.Return) and isinstance(b[0].value, ast.DictComp)
        if ok:
            dc = b[0].value
            g = dc.generators[0]
            ok = (len(dc.generators) == 1 and not g.ifs and isinstance(g.target, ast.Tuple) and len(g.target.elts) == 2
                  and ast.unparse(g.iter).replace(" ", "") == "enumerate(%s)" % p
                  and ast.unparse(dc.key) == ast.unparse(g.target.elts[1]) and ast.unparse(dc.value) == ast.unparse(g.target.elts[0]))
        if not ok:
            fail(fn, "%s is not {x: i for i, x in enumerate(xs)}" % name)

    def slice_fn(self, name):
        """-> (params, gene component, window component) of the returned 3-tuple, components as parameter names or int constants"""
        fn = self.classes["OverlapData"].get(name) or fail(None, "OverlapData.%s not found" % name)
        b = body_of(fn)
        params = [a.arg for a in fn.args.args if a.arg not in ("self", "cls")]
        if len(b) != 1 or not isinstance(b[0], ast.Return) or not isinstance(b[0].value, ast.Tuple) or len(b[0].value.elts) != 3:
            fail(fn, "OverlapData.%s does not return a 3-tuple" % name)
        e = b[0].value.elts
        if ast.unparse(e[2]).replace(" ", "") != "slice(None)":
            fail(fn, "third component of OverlapData.%s is not slice(None)" % name)
        def comp(x):
            if isinstance(x, ast.Name) and x.id in params:
                return ("param", x.id)
            if isinstance(x, ast.Constant) and isinstance(x.value, int):
                return ("const", x.value)
            fail(x, "component %s of OverlapData.%s" % (ast.unparse(x), name))
        return params, comp(e[0]), comp(e[1])

    # ---- where the requested names and the stored labels come from
    def labels(self, repo):
        D = self.classes["OverlapData"]
        cs = D.get("_create_sets") or fail(None, "_create_sets not found")
        cfgp = [a.arg for a in cs.args.args][-1]
        assigns = {ast.unparse(st.targets[0]): ast.unparse(st.value).replace(" ", "") for st in ast.walk(cs)
                   if isinstance(st, ast.Assign) and len(st.targets) == 1}
        if assigns.get("self.gene_names") not in ("list(%s.genes.names)" % cfgp,):
            fail(cs, "_create_sets: self.gene_names = %s" % assigns.get("self.gene_names"))
        if assigns.get("self.windows") not in ("list(%s.windows)" % cfgp,):
            fail(cs, "_create_sets: self.windows = %s" % assigns.get("self.windows"))
        fp = D.get("from_param") or fail(None, "from_param not found")
        calls = [c for c in ast.walk(fp) if isinstance(c, ast.Call) and dotted(c.func) == "_OverlapConfigSink"]
        kw = {k.arg: ast.unparse(k.value) for c in calls for k in c.keywords}
        if len(calls) != 1 or kw.get("genes") != "genes" or kw.get("windows") != "windows" or kw.get("n_transposons") != "n_transposons":
            fail(fp, "from_param does not pass genes, windows and n_transposons on unchanged")
        for meth, field in (("_write_gene_names", "self.gene_names"), ("_write_windows", "self.windows")):
            fn = D.get(meth) or fail(None, "%s not found" % meth)
            writes = [st for st in ast.walk(fn) if isinstance(st, ast.Assign) and isinstance(st.targets[0], ast.Subscript)]
            ok = len(writes) == 1 and ast.unparse(writes[0].targets[0]).replace(" ", "") == "dset[:]" and ast.unparse(writes[0].value) == field
            if not ok and not writes:
                # or: create_dataset(KEY, data=np.array(<field>), dtype=...)
                cds = [c for c in ast.walk(fn) if isinstance(c, ast.Call) and (dotted(c.func) or "").endswith(".create_dataset")]
                datas = [ast.unparse(k.value).replace(" ", "") for c in cds for k in c.keywords if k.arg == "data"]
                ok = len(cds) == 1 and datas in (["np.array(%s)" % field], [field])
            if not ok:
                fail(fn, "%s does not store %s unchanged" % (meth, field))
        onf = D.get("_open_new_file") or fail(None, "_open_new_file not found")
        called = [dotted(c.func) for c in ast.walk(onf) if isinstance(c, ast.Call)]
        for need in ("self._create_sets", "self._write_gene_names", "self._write_windows"):
            if need not in called:
                fail(onf, "_open_new_file does not call %s" % need)
        mfile = "transposon/overlap_manager.py"
        mt = ast.parse(open(os.path.join(repo, mfile)).read())
        fns = {n.name: n for n in ast.walk(mt) if isinstance(n, ast.FunctionDef)}
        oj = fns.get("_overlap_job") or fail(None, "%s: _overlap_job not found" % mfile)
        jc = [c for c in ast.walk(oj) if isinstance(c, ast.Call) and dotted(c.func) == "_OverlapJob"]
        kw = {k.arg: ast.unparse(k.value).replace(" ", "") for c in jc for k in c.keywords}
        if len(jc) != 1 or kw.get("gene_names") != "list(gene_data.names)" or kw.get("window_range") != "self.window_range":
            fail(oj, "%s: _overlap_job does not request list(gene_data.names) with self.window_range: %s" % (mfile, kw))
        cj = fns.get("_calculate_overlap_job") or fail(None, "%s: _calculate_overlap_job not found" % mfile)
        assigns = {ast.unparse(st.targets[0]): ast.unparse(st.value).replace(" ", "") for st in cj.body
                   if isinstance(st, ast.Assign) and len(st.targets) == 1}
        cc = [c for c in ast.walk(cj) if isinstance(c, ast.Call) and isinstance(c.func, ast.Attribute) and c.func.attr == "calculate"]
        if len(cc) != 1:
            fail(cj, "%s: _calculate_overlap_job does not call calculate once" % mfile)
        args = [ast.unparse(a) for a in cc[0].args]
        if len(args) < 4 or assigns.get(args[0]) != "GeneData.read(job.gene_path)" or assigns.get(args[1]) != "TransposonData.read(job.te_path)" \
                or args[2:4] != ["job.window_range", "job.gene_names"]:
            fail(cj, "%s: arguments of calculate: %s" % (mfile, args))
        return ("Definition gen_job_gene_names (container_names : list N) : list N := container_names.\n"
                "Definition gen_stored_gene_names (container_names : list N) : list N := container_names.\n"
                "Definition gen_stored_windows (filtered_windows : list Z) : list Z := filtered_windows.\n")

    # ---- calculate
    def translate(self):
        W = self.classes["OverlapWorker"]
        self.check_filter("_filter_gene_names", "names")
        self.check_filter("_filter_windows", "windows")
        self.check_enum_dict("_map_gene_names_2_indices")
        self.check_enum_dict("_map_windows_2_indices")
        lr_params, lr_g, lr_w = self.slice_fn("left_right_slice")
        in_params, in_g, in_w = self.slice_fn("intra_slice")
        # _reset: which attribute holds what
        reset = W.get("_reset") or fail(None, "_reset not found")
        rp = [a.arg for a in reset.args.args][1:]
        if rp != ["transposons", "genes", "windows", "gene_names"]:
            fail(reset, "parameters of _reset: %s" % rp)
        attr = {}
        local = {}
        for st in body_of(reset):
            if isinstance(st, ast.Assign) and len(st.targets) == 1:
                tgt, val = st.targets[0], ast.unparse(st.value).replace(" ", "")
                name = dotted(tgt) if not isinstance(tgt, ast.Name) else tgt.id
                if val == "self._filter_gene_names(gene_names,genes)":
                    v = ("names", "gene_names")
                elif val.startswith("list(") and val[5:-1] in local and local[val[5:-1]][0] in ("names", "windows"):
                    v = local[val[5:-1]]
                elif val == "list(self._filter_windows(windows))" or val == "self._filter_windows(windows)":
                    v = ("windows", "windows_")
                elif val.startswith("self._map_gene_names_2_indices(") and val[len("self._map_gene_names_2_indices("):-1] in attr \
                        and attr[val[len("self._map_gene_names_2_indices("):-1]] == ("names", "gene_names"):
                    v = ("g2i", "gene_names")
                elif val.startswith("self._map_windows_2_indices(") and attr.get(val[len("self._map_windows_2_indices("):-1]) == ("windows", "windows_"):
                    v = ("w2i", "windows_")
                elif val == "transposons.number_elements":
                    v = ("other", None)
                elif val.startswith("OverlapData.from_param(genes,"):
                    args = [ast.unparse(a).replace(" ", "") for a in st.value.args]
                    if len(args) != 4 or attr.get(args[2]) != ("windows", "windows_"):
                        fail(st, "OverlapData.from_param is not given (genes, n_te, the filtered windows, path)")
                    v = ("sink", None)
                else:
                    fail(st, "statement of _reset: %s" % ast.unparse(st)[:100])
                if isinstance(tgt, ast.Name):
                    local[name] = v
                else:
                    attr[name] = v
                continue
            if is_log(st):
                continue
            fail(st, "statement of _reset: %s" % ast.unparse(st)[:100])
        roles = {v: k for k, v in attr.items()}
        for need in (("names", "gene_names"), ("windows", "windows_"), ("g2i", "gene_names"), ("w2i", "windows_"), ("sink", None)):
            if need not in roles:
                fail(reset, "_reset does not set up %s" % (need,))
        A_names, A_windows, A_g2i, A_w2i, A_sink = (roles[x] for x in (("names", "gene_names"), ("windows", "windows_"), ("g2i", "gene_names"),
                                                                      ("w2i", "windows_"), ("sink", None)))
        calc = W.get("calculate") or fail(None, "calculate not found")
        cp = [a.arg for a in calc.args.args][1:]
        if cp[:4] != ["genes", "transposons", "windows", "gene_names"]:
            fail(calc, "parameters of calculate: %s" % cp)
        b = body_of(calc)
        if not (b and isinstance(b[0], ast.Expr) and ast.unparse(b[0].value).replace(" ", "") == "self._reset(transposons,genes,windows,gene_names)"):
            fail(calc, "calculate does not start with self._reset(transposons, genes, windows, gene_names)")
        rest = [s for s in b[1:] if not (isinstance(s, ast.Assign) and ast.unparse(s.targets[0]) == "path") and not isinstance(s, ast.Return)]
        if len(rest) != 1 or not isinstance(rest[0], ast.With) or len(rest[0].items) != 1 or ast.unparse(rest[0].items[0].context_expr) != A_sink \
                or not isinstance(rest[0].items[0].optional_vars, ast.Name):
            fail(calc, "calculate is not `with %s as sink: ...`" % A_sink)
        sink = rest[0].items[0].optional_vars.id
        wb = [s for s in rest[0].body if not (isinstance(s, ast.Assign) and ast.unparse(s.targets[0]) == "path")]
        if len(wb) != 1 or not isinstance(wb[0], ast.For) or ast.unparse(wb[0].iter) != A_names or not isinstance(wb[0].target, ast.Name):
            fail(calc, "the with block is not one loop over %s" % A_names)
        gl = wb[0]
        gname = gl.target.id

        def loop_body(ss, env, acc):
            """-> Gallina term for the array value after the statements, acc = current array variable text"""
            if not ss:
                return "(Running %s)" % acc
            st, tail = ss[0], ss[1:]
            u = ast.unparse(st).replace(" ", "")
            if is_log(st):
                return loop_body(tail, env, acc)
            if isinstance(st, ast.If) and ast.unparse(st.test) == "progress" and not st.orelse and all(ast.unparse(x).replace(" ", "") == "progress()" for x in st.body):
                return loop_body(tail, env, acc)
            if isinstance(st, ast.Assign) and len(st.targets) == 1 and isinstance(st.targets[0], ast.Name):
                name, val = st.targets[0].id, st.value
                vu = ast.unparse(val).replace(" ", "")
                if vu == "genes.get_gene(%s)" % env.get("__gname"):
                    return loop_body(tail, dict(env, **{name: ("gene", "(gd %s)" % env["__gname_g"])}), acc)
                if vu == "%s[%s]" % (A_g2i, env.get("__gname")):
                    v = self.fresh("g_idx")
                    return "(match last_index %s gene_names with None => Failed | Some %s => %s end)" % (
                        env["__gname_g"], v, loop_body(tail, dict(env, **{name: ("nat", v)}), acc))
                if "__wname" in env and vu == "%s[%s]" % (A_w2i, env["__wname"]):
                    v = self.fresh("w_idx")
                    return "(match last_indexZ %s windows_ with None => Failed | Some %s => %s end)" % (
                        env["__wname_g"], v, loop_body(tail, dict(env, **{name: ("nat", v)}), acc))
                if isinstance(val, ast.Call) and dotted(val.func) in (sink + ".intra_slice", sink + ".left_right_slice") and not val.keywords:
                    which = dotted(val.func).split(".")[-1]
                    params, cg, cw = (in_params, in_g, in_w) if which == "intra_slice" else (lr_params, lr_g, lr_w)
                    if len(val.args) != len(params):
                        fail(st, "arguments of %s" % which)
                    given = {}
                    for p_, a_ in zip(params, val.args):
                        if not (isinstance(a_, ast.Name) and env.get(a_.id, (None,))[0] == "nat"):
                            fail(st, "argument %s of %s is not an index" % (ast.unparse(a_), which))
                        given[p_] = env[a_.id][1]
                    def res(c):
                        return given[c[1]] if c[0] == "param" else "%d%%nat" % c[1]
                    return loop_body(tail, dict(env, **{name: ("slice", res(cg), res(cw))}), acc)
                fail(st, "assignment in the loop: %s" % ast.unparse(st)[:100])
            if isinstance(st, ast.Assign) and len(st.targets) == 1 and isinstance(st.targets[0], ast.Subscript):
                tgt = st.targets[0]
                arr = dotted(tgt.value)
                if arr in (sink + ".left", sink + ".intra", sink + ".right") and isinstance(tgt.slice, ast.Name) and env.get(tgt.slice.id, (None,))[0] == "slice":
                    side = arr.split(".")[-1]
                    val = st.value
                    if not (isinstance(val, ast.Call) and dotted(val.func) == "Overlap." + side):
                        fail(st, "%s is not assigned Overlap.%s(...)" % (arr, side))
                    args = [ast.unparse(a) for a in val.args]
                    gvar = [k for k, v in env.items() if isinstance(v, tuple) and v[0] == "gene"]
                    want = [gvar[0] if gvar else "?", "transposons"] + ([env["__wname"]] if side != "intra" else [])
                    if args != want or val.keywords:
                        fail(st, "arguments of Overlap.%s: %s, expected %s" % (side, args, want))
                    gtxt = env[gvar[0]][1]
                    t = self.fresh("t")
                    if side == "intra":
                        row = "(map (fun %s => gen_overlap_intra (g_start %s) (g_stop %s) (g_len %s) (t_start %s) (t_stop %s)) tes)" % (t, gtxt, gtxt, gtxt, t, t)
                    else:
                        row = "(map (fun %s => gen_overlap_%s (g_start %s) (g_stop %s) (g_len %s) (t_start %s) (t_stop %s) %s) tes)" % (
                            t, side, gtxt, gtxt, gtxt, t, t, env["__wname_g"])
                    sl = env[tgt.slice.id]
                    v = self.fresh("arr")
                    return "(let %s := oassign O%s %s %s %s %s in %s)" % (v, side.capitalize(), sl[1], sl[2], row, acc, loop_body(tail, env, v))
                fail(st, "subscript assignment in the loop: %s" % ast.unparse(st)[:100])
            if isinstance(st, ast.For) and not st.orelse and ast.unparse(st.iter) == A_windows and isinstance(st.target, ast.Name) and "__wname" not in env:
                w = self.fresh("w")
                a2 = self.fresh("arr")
                inner = loop_body(list(st.body), dict(env, __wname=st.target.id, __wname_g=w), a2)
                v = self.fresh("res")
                return ("(match fold_left (fun (st_ : ostate) (%s : Z) => match st_ with Failed => Failed | Running %s => %s end) windows_ (Running %s) with "
                        "Failed => Failed | Running %s => %s end)") % (w, a2, inner, acc, v, loop_body(tail, env, v))
            fail(st, "statement in the loop: %s" % ast.unparse(st)[:100])

        n = self.fresh("n")
        a0 = self.fresh("arr")
        body = loop_body(list(gl.body), {"__gname": gname, "__gname_g": n}, a0)
        return ("Definition gen_calculate (known requested : list N) (windows : list Z) (gd : N -> gene) (tes : list te) : ostate :=\n"
                "  let gene_names := filter (fun n => memN n known) requested in\n"
                "  let windows_ := filter (fun w => negb (w <? 0)%%Z) windows in\n"
                "  fold_left (fun (st_ : ostate) (%s : N) => match st_ with Failed => Failed | Running %s => %s end) gene_names (Running []).\n"
                % (n, a0, body))


HEADER = """(* GENERATED by /verif/translator/py2gallina_overlap.py from the current /repo sources. Do not edit. *)
From Coq Require Import ZArith NArith List Bool.
From TEV Require Import Model.Pipeline Model.OverlapArr Gen.Gen.
Import ListNotations.
"""


def main():
    repo, outdir = sys.argv[1], sys.argv[2]
    os.makedirs(outdir, exist_ok=True)
    msg, rc = "translated %s OverlapWorker.calculate and the helpers it uses" % FNAME, 0
    try:
        t = T(repo)
        text = HEADER + t.translate() + t.labels(repo)
    except Unsupported as u:
        msg, rc = "UNSUPPORTED %s" % u, 2
        text = HEADER + "(* translation refused: %s *)\nDefinition translation_refused : False := I.\n" % str(u).replace("*)", "* )")
    except (SyntaxError, OSError, KeyError, IndexError, AttributeError, TypeError) as e:
        msg, rc = "UNSUPPORTED cannot read sources: %s: %s" % (type(e).__name__, e), 2
        text = HEADER + "Definition translation_refused : False := I.\n"
    print(msg)
    with open(os.path.join(outdir, "overlap.status"), "w") as f:
        f.write("%s\nexit %d\n" % (msg, rc))
    p = os.path.join(outdir, "GenOverlap.v")
    if not os.path.exists(p) or open(p).read() != text:
        with open(p, "w") as f:
            f.write(text)
    return rc


if __name__ == "__main__":
    sys.exit(main())
