#!/usr/bin/env python3
"""py2gallina_merge: translate the summation of transposon/merge_data.py - MergeData._process_sum, the three parameter
sets built by _list_sum_input_outputs, the two calls of it in _list_density_args, MergeData.sum, the slice functions of
MergeData and the label set-up of _open_new_file - into Gallina over the overlap-array log of Model/OverlapArr.v and a
density-array log (Model/MergeArr.v).

usage: py2gallina_merge.py <repo> <outdir>     writes <outdir>/GenMerge.v and <outdir>/merge.status

Symbolic execution, statement by statement; a statement outside the table is refused.  Table (trusted):
    {x: i for i, x in enumerate(xs)}[x]         index of the LAST occurrence (KeyError = the summation fails); .get(x, None) = option
    [f(w) for w in ws]                          map; a raising f makes the whole statement fail (all_some)
    for a, b in zip(xs, ys)                     fold_left over combine xs ys (the shorter list decides)
    for _i, p in enumerate(zip(xs, ys))         the same, the counter is not used
    gene_data.get_gene(name)                    gd name
    sum_args.input[()]                          the whole input array (left / intra / right of the overlap file)
    np.sum(overlaps[g, w, slice(None)], where=m)   masked_sum m (the row at gene index g, window index w; zeros if never assigned)
    sum_args.output[slice_out] = np.divide(s, d)   one assignment (side, group index, window index, gene index, s, d); the quotient
                                                itself is binary32 rounding, see Props/C03float.v
    MergeData.left_right_slice(group_idx, gene_idx, window_idx)   ints become unit slices, result (group, window, gene); a None
                                                (= the whole axis) is not modelled: the summation is said to fail
    MergeData.intra_slice                       ValueError unless window_idx is None; window slice(0, 1, 1) = index 0
    OverlapData.left_right_slice / intra_slice  as in py2gallina_overlap.py
    GeneDatum.divisor_left / divisor_intra / divisor_right   the kernel functions gen_divisor_* of Gen/Gen.v (py2gallina.py)
    partial(np.equal, te_group)(name)           the mask  map (fun t => column t =? name) tes
    random.shuffle(sums_)                       an arbitrary order of the six summations (a parameter of gen_sum)
Fail-closed: anything else aborts with exit status 2 and the generated file does not type-check.
"""
import ast, os, sys

FNAME = "transposon/merge_data.py"


class Unsupported(Exception):
    pass


def fail(node, msg):
    raise Unsupported("%s:%s: %s" % (FNAME, getattr(node, "lineno", "?"), msg))


def dotted(e):
    parts = []
    while isinstance(e, ast.Attribute):
        parts.append(e.attr)
        e = e.value
    if isinstance(e, ast.Name):
        parts.append(e.id)
        return ".".join(reversed(parts))
    return None


def U(e):
    return ast.unparse(e).replace(" ", "").replace("\n", "")


def body_of(fn):
    return [s for s in fn.body if not (isinstance(s, ast.Expr) and isinstance(s.value, ast.Constant))]


def is_log(st):
    if isinstance(st, ast.Expr) and isinstance(st.value, ast.Call):
        d = dotted(st.value.func) or ""
        return d.split(".")[-1] in ("debug", "info", "warning", "error", "critical") and "logger" in d
    return False


def enum_dict(e, over):
    """{x: i for i, x in enumerate(<over>)}"""
    if not isinstance(e, ast.DictComp) or len(e.generators) != 1:
        return False
    g = e.generators[0]
    return (not g.ifs and isinstance(g.target, ast.Tuple) and len(g.target.elts) == 2 and U(g.iter) == "enumerate(%s)" % over
            and U(e.key) == U(g.target.elts[1]) and U(e.value) == U(g.target.elts[0]))


class T:
    def __init__(self, repo):
        tree = ast.parse(open(os.path.join(repo, FNAME)).read())
        cls = [n for n in tree.body if isinstance(n, ast.ClassDef) and n.name == "MergeData"]
        if not cls:
            fail(tree, "class MergeData not found")
        self.m = {f.name: f for f in cls[0].body if isinstance(f, ast.FunctionDef)}
        self.tree = tree
        self.repo = repo

    def get(self, name):
        return self.m.get(name) or fail(None, "MergeData.%s not found" % name)

    # ---- the tuple of parameters
    def fields(self):
        for st in self.tree.body:
            if isinstance(st, ast.Assign) and U(st.targets[0]) == "_SummationArgs":
                v = st.value
                if isinstance(v, ast.Call) and dotted(v.func) == "namedtuple" and len(v.args) == 2 and isinstance(v.args[1], ast.List):
                    return [x.value for x in v.args[1].elts]
        fail(self.tree, "_SummationArgs is not a namedtuple of a literal field list")

    # ---- _open_new_file: the labels and the index dictionaries
    def labels(self):
        fn = self.get("_open_new_file")
        cfg = [a.arg for a in fn.args.args][-1]
        a = {U(st.targets[0]): st.value for st in body_of(fn) if isinstance(st, ast.Assign) and len(st.targets) == 1}
        want = {"self.windows": "list(%s.windows)" % cfg, "self.gene_names": "list(%s.gene_names)" % cfg,
                "self.superfamily_names": "sorted(%s.transposons.superfamily_name_set)" % cfg,
                "self.order_names": "sorted(%s.transposons.order_name_set)" % cfg}
        for k, v in want.items():
            if k not in a or U(a[k]) != v:
                fail(fn, "_open_new_file: %s = %s, expected %s" % (k, U(a[k]) if k in a else None, v))
        for d, over in (("self._superfam_2_idx", "self.superfamily_names"), ("self._order_2_idx", "self.order_names"),
                        ("self._window_2_idx", "self.windows"), ("self._gene_2_idx", "self.gene_names")):
            if d not in a or not enum_dict(a[d], over):
                fail(fn, "_open_new_file: %s is not {x: i for i, x in enumerate(%s)}" % (d, over))
        fp = self.get("from_param")
        calls = [c for c in ast.walk(fp) if isinstance(c, ast.Call) and dotted(c.func) == "_MergeConfigSink"]
        kw = {k.arg: U(k.value) for c in calls for k in c.keywords}
        if len(calls) != 1 or kw.get("transposons") != "transposon_data" or kw.get("gene_names") != "gene_data.names" or kw.get("windows") != "windows":
            fail(fp, "from_param does not pass transposon_data, gene_data.names and windows on unchanged: %s" % kw)

    # ---- slice functions of MergeData
    def slices(self):
        lr = self.get("left_right_slice")
        params = [a.arg for a in lr.args.args][1:]
        if params != ["group_idx", "gene_idx", "window_idx"]:
            fail(lr, "parameters of left_right_slice: %s" % params)
        b = body_of(lr)
        seen = set()
        for st in b[:-1]:
            ok = False
            if isinstance(st, ast.If) and not st.orelse and len(st.body) == 1:
                t = U(st.test)
                for p in params:
                    if t == "isinstance(%s,int)" % p and U(st.body[0]) == "%s=slice(%s,%s+1,1)" % (p, p, p):
                        seen.add(p); ok = True
            if not ok:
                fail(st, "left_right_slice: %s" % ast.unparse(st)[:80])
        if seen != set(params) or not isinstance(b[-1], ast.Return) or U(b[-1].value) != "(group_idx,window_idx,gene_idx)":
            fail(lr, "left_right_slice does not return (group_idx, window_idx, gene_idx) with ints turned into unit slices")
        it = self.get("intra_slice")
        if [a.arg for a in it.args.args][1:] != params:
            fail(it, "parameters of intra_slice")
        b = body_of(it)
        ok = (len(b) == 3 and isinstance(b[0], ast.If) and U(b[0].test) == "window_idxisnotNone" and not b[0].orelse
              and any(isinstance(x, ast.Raise) for x in b[0].body)
              and isinstance(b[1], ast.Assign) and U(b[1].value) == "slice(0,1,1)" and isinstance(b[1].targets[0], ast.Name)
              and isinstance(b[2], ast.Return)
              and U(b[2].value) == "cls.left_right_slice(group_idx=group_idx,gene_idx=gene_idx,window_idx=%s)" % b[1].targets[0].id)
        if not ok:
            fail(it, "intra_slice is not: raise unless window_idx is None; left_right_slice(..., window_idx=slice(0, 1, 1))")
        # the slice functions of the overlap file
        otree = ast.parse(open(os.path.join(self.repo, "transposon/overlap.py")).read())
        oc = [n for n in otree.body if isinstance(n, ast.ClassDef) and n.name == "OverlapData"]
        om = {f.name: f for f in oc[0].body if isinstance(f, ast.FunctionDef)} if oc else {}
        for name, params_, ret in (("left_right_slice", ["window_idx", "gene_idx"], "(gene_idx,window_idx,slice(None))"),
                                   ("intra_slice", ["gene_idx"], "(gene_idx,0,slice(None))")):
            fn = om.get(name) or fail(None, "OverlapData.%s not found" % name)
            b = body_of(fn)
            if [a.arg for a in fn.args.args if a.arg not in ("self", "cls")] != params_ or len(b) != 1 or not isinstance(b[0], ast.Return) or U(b[0].value) != ret:
                fail(fn, "OverlapData.%s does not return %s" % (name, ret))

    # ---- _list_sum_input_outputs: three parameter sets, position by position
    def param_sets(self, fields):
        fn = self.get("_list_sum_input_outputs")
        params = [a.arg for a in fn.args.args][1:]
        if params != ["overlap", "density", "te_group", "te_set", "te_idx_map", "windows"]:
            fail(fn, "parameters of _list_sum_input_outputs: %s" % params)
        a = {}
        loop = None
        for st in body_of(fn):
            if isinstance(st, ast.Assign) and len(st.targets) == 1 and isinstance(st.targets[0], ast.Name):
                a[st.targets[0].id] = st.value
            elif isinstance(st, ast.For):
                loop = st
            elif isinstance(st, ast.Return):
                ret = st
            elif not is_log(st):
                fail(st, "statement of _list_sum_input_outputs: %s" % ast.unparse(st)[:80])
        if loop is None or not (isinstance(loop.iter, ast.Call) and dotted(loop.iter.func) == "zip") or not isinstance(loop.target, ast.Tuple):
            fail(fn, "_list_sum_input_outputs has no `for ... in zip(...)`")
        lists = [U(x) for x in loop.iter.args]
        tvars = [U(x) for x in loop.target.elts]
        lb = [s for s in loop.body if not is_log(s)]
        if len(lb) != 2 or not isinstance(lb[0], ast.Assign) or not isinstance(lb[0].value, ast.Call) or dotted(lb[0].value.func) != "_SummationArgs" \
                or U(lb[1]) != "%s.append(%s)" % (U(ret.value), U(lb[0].targets[0])) or U(a.get(U(ret.value))) != "[]":
            fail(loop, "the loop does not append one _SummationArgs per position to the returned list")
        kw = {k.arg: U(k.value) for k in lb[0].value.keywords}
        if sorted(kw) != sorted(fields) or lb[0].value.args:
            fail(lb[0], "_SummationArgs is not built with exactly its fields as keywords")
        src = {}
        for f in fields:
            if kw[f] not in tvars:
                fail(lb[0], "field %s is not a loop variable" % f)
            src[f] = lists[tvars.index(kw[f])]
        def lit3(name):
            v = a.get(name)
            if v is None:
                fail(fn, "%s is not assigned" % name)
            if isinstance(v, ast.List) and len(v.elts) == 1 and isinstance(v.elts[0], ast.Starred):
                x = v.elts[0].value           # [*(f,) * 3]
                if isinstance(x, ast.BinOp) and isinstance(x.op, ast.Mult) and U(x.right) == "3" and isinstance(x.left, ast.Tuple) and len(x.left.elts) == 1:
                    return [U(x.left.elts[0])] * 3
            if not isinstance(v, ast.List) or len(v.elts) != 3:
                fail(v, "%s is not a list of three" % name)
            return [U(x) for x in v.elts]
        want = {"input": ["overlap.left", "overlap.intra", "overlap.right"],
                "output": ["density.left", "density.intra", "density.right"],
                "windows": ["overlap.windows", "[None]", "overlap.windows"],
                "slice_in": ["overlap.left_right_slice", "lambdaw,g:overlap.intra_slice(g)", "overlap.left_right_slice"],
                "slice_out": ["cls.left_right_slice", "cls.intra_slice", "cls.left_right_slice"],
                "where": ["partial(np.equal,te_group)"] * 3,
                "divisor_func": ["GeneDatum.divisor_left", "GeneDatum.divisor_intra", "GeneDatum.divisor_right"]}
        for f, w in want.items():
            got = lit3(src[f])
            if got != w:
                fail(fn, "field %s of the three parameter sets is %s, expected %s" % (f, got, w))
        # te_idx_name = zip([te_set_idx] * 3, [te_set_names] * 3), te_set_names = list(te_set), te_set_idx = [te_idx_map[t] for t in te_set_names]
        tin = a.get(src["te_idx_name"])
        if tin is None or U(tin) != "zip([te_set_idx]*3,[te_set_names]*3)" or U(a.get("te_set_names")) != "list(te_set)" \
                or U(a.get("te_set_idx")) not in ("[te_idx_map[t]fortinte_set_names]",):
            fail(fn, "te_idx_name is not zip([te_set_idx] * 3, [te_set_names] * 3) with the indices looked up in te_idx_map")
        # _list_density_args: the two group axes
        fn = self.get("_list_density_args")
        calls = [c for c in ast.walk(fn) if isinstance(c, ast.Call) and dotted(c.func) == "self._list_sum_input_outputs"]
        got = sorted(tuple(U(x) for x in c.args) for c in calls)
        want = sorted([("overlap", "self.superfamily", "self._config.transposons.superfamilies", "self.superfamily_names", "self._superfam_2_idx", "overlap.windows"),
                       ("overlap", "self.order", "self._config.transposons.orders", "self.order_names", "self._order_2_idx", "overlap.windows")])
        if got != want or any(c.keywords for c in calls):
            fail(fn, "_list_density_args does not build the superfamily and the order summations from their own columns, names and dictionaries: %s" % (got,))
        ret = [s for s in body_of(fn) if isinstance(s, ast.Return)]
        if len(ret) != 1 or not isinstance(ret[0].value, ast.BinOp) or not isinstance(ret[0].value.op, ast.Add):
            fail(fn, "_list_density_args does not return the concatenation of the two lists")
        # MergeData.sum: guards first (py2gallina_guards.py proves what they accept), then every summation once
        fn = self.get("sum")
        b = [s for s in body_of(fn) if not is_log(s)]
        src_ = [U(s) for s in b]
        if src_[:3] != ["self._validate_chromosome(overlap)", "self._validate_windows(overlap)", "self._validate_gene_names(overlap)"]:
            fail(fn, "sum does not start with the three guards")
        rest = b[3:]
        names = {}
        loop = None
        for st in rest:
            if isinstance(st, ast.Assign) and len(st.targets) == 1 and isinstance(st.targets[0], ast.Name):
                names[st.targets[0].id] = U(st.value)
            elif isinstance(st, ast.Expr) and U(st).startswith("random.shuffle("):
                shuffled = U(st)[len("random.shuffle("):-1]
            elif isinstance(st, ast.For):
                loop = st
            else:
                fail(st, "statement of sum: %s" % ast.unparse(st)[:80])
        lst = [k for k, v in names.items() if v == "self._list_density_args(overlap)"]
        if loop is None or len(lst) != 1 or U(loop.iter) != lst[0] or not isinstance(loop.target, ast.Name):
            fail(fn, "sum does not loop over self._list_density_args(overlap)")
        lb = [U(s) for s in loop.body if not (isinstance(s, ast.If) and "progress_bar_cb" in U(s.test))]
        if lb != ["self._process_sum(overlap,gene_data,%s)" % loop.target.id]:
            fail(loop, "the loop of sum does not call self._process_sum(overlap, gene_data, args) once per parameter set: %s" % lb)

    # ---- _process_sum
    def process_sum(self):
        fn = self.get("_process_sum")
        if [a.arg for a in fn.args.args][1:] != ["overlap", "gene_data", "sum_args"]:
            fail(fn, "parameters of _process_sum")
        b = body_of(fn)
        env = {}
        i = 0
        # prologue
        while i < len(b) and isinstance(b[i], ast.Assign):
            st = b[i]
            name, v = U(st.targets[0]), U(st.value)
            if v == "sum_args.input[()]":
                env[name] = "input"
            elif v == "[self._window_2_idx.get(w,None)forwinsum_args.windows]":
                env[name] = "w_indices"
            else:
                fail(st, "statement of _process_sum: %s" % ast.unparse(st)[:80])
            i += 1
        if sorted(env.values()) != ["input", "w_indices"] or i != len(b) - 1 or not isinstance(b[i], ast.For):
            fail(fn, "_process_sum is not: input array, window indices, one loop over the genes")
        gl = b[i]
        if U(gl.iter) != "overlap.gene_names" or not isinstance(gl.target, ast.Name):
            fail(gl, "the outer loop is not over overlap.gene_names")
        gname = gl.target.id
        tl = None
        for st in gl.body:
            if isinstance(st, ast.Assign):
                name, v = U(st.targets[0]), U(st.value)
                if v == "gene_data.get_gene(%s)" % gname:
                    env[name] = "gene_datum"
                elif v == "self._gene_2_idx[%s]" % gname:
                    env[name] = "g_idx"
                elif "gene_datum" in env.values() and v == "[sum_args.divisor_func(%s,w)forwinsum_args.windows]" % [k for k, x in env.items() if x == "gene_datum"][0]:
                    env[name] = "divisors"
                elif v == "sum_args.te_idx_name" and isinstance(st.targets[0], ast.Tuple) and len(st.targets[0].elts) == 2:
                    env[U(st.targets[0].elts[0])] = "te_indices"; env[U(st.targets[0].elts[1])] = "te_names"
                else:
                    fail(st, "statement of the gene loop: %s" % ast.unparse(st)[:80])
            elif isinstance(st, ast.For) and tl is None:
                tl = st
            elif not is_log(st):
                fail(st, "statement of the gene loop: %s" % ast.unparse(st)[:80])
        inv = {v: k for k, v in env.items()}
        for need in ("gene_datum", "g_idx", "divisors", "te_indices", "te_names"):
            if need not in inv:
                fail(gl, "the gene loop does not set up %s" % need)
        if tl is None or gl.body[-1] is not tl:
            fail(gl, "the loop over the TE groups is not the last statement of the gene loop")
        it = U(tl.iter)
        pair = None
        if it == "enumerate(zip(%s,%s))" % (inv["te_indices"], inv["te_names"]) and isinstance(tl.target, ast.Tuple) and len(tl.target.elts) == 2:
            pair = U(tl.target.elts[1])
        elif it == "zip(%s,%s)" % (inv["te_indices"], inv["te_names"]):
            pair = U(tl.target)
            if isinstance(tl.target, ast.Tuple) and len(tl.target.elts) == 2 and all(isinstance(x, ast.Name) for x in tl.target.elts):
                env[tl.target.elts[0].id] = "te_idx"; env[tl.target.elts[1].id] = "te_name"      # for te_idx, te_name in zip(...)
        else:
            fail(tl, "the second loop is not over zip(te_indices, te_names)")
        wl = None
        for st in tl.body:
            if isinstance(st, ast.Assign):
                name, v = U(st.targets[0]), U(st.value)
                if v == pair and isinstance(st.targets[0], ast.Tuple) and len(st.targets[0].elts) == 2:
                    env[U(st.targets[0].elts[0])] = "te_idx"; env[U(st.targets[0].elts[1])] = "te_name"
                elif "te_name" in env.values() and v == "sum_args.where(%s)" % [k for k, x in env.items() if x == "te_name"][0]:
                    env[name] = "mask"
                else:
                    fail(st, "statement of the TE loop: %s" % ast.unparse(st)[:80])
            elif isinstance(st, ast.For) and wl is None:
                wl = st
            elif not is_log(st):
                fail(st, "statement of the TE loop: %s" % ast.unparse(st)[:80])
        inv = {v: k for k, v in env.items()}
        for need in ("te_idx", "te_name", "mask"):
            if need not in inv:
                fail(tl, "the TE loop does not set up %s" % need)
        if wl is None or tl.body[-1] is not wl or U(wl.iter) != "zip(%s,%s)" % (inv["w_indices"], inv["divisors"]) \
                or not isinstance(wl.target, ast.Tuple) or len(wl.target.elts) != 2:
            fail(tl, "the innermost loop is not `for w_idx, divisor in zip(w_indices, divisors)`")
        env[U(wl.target.elts[0])] = "w_idx"; env[U(wl.target.elts[1])] = "divisor"
        inv = {v: k for k, v in env.items()}
        used = set()
        done = False
        for st in wl.body:
            if done:
                fail(st, "statement after the assignment to the output array")
            if isinstance(st, ast.Assign):
                name, v = U(st.targets[0]), U(st.value)
                if v == "sum_args.slice_in(%s,%s)" % (inv["w_idx"], inv["g_idx"]):
                    env[name] = "slice_in"
                elif env.get(v) == "slice_in" and isinstance(st.targets[0], ast.Tuple) and len(st.targets[0].elts) == 3:
                    for nm, role in zip(st.targets[0].elts, ("g_slice_in", "w_slice_in", "te_slice_in")):
                        env[U(nm)] = role
                elif isinstance(st.value, ast.Tuple) and all(isinstance(x, ast.Name) and x.id in env for x in st.value.elts):
                    env[name] = "unused_tuple"         # a tuple of known values that nothing reads (checked below)
                elif isinstance(st.value, ast.Call) and dotted(st.value.func) == "np.sum":
                    inv = {v_: k for k, v_ in env.items()}
                    want = "np.sum(%s[%s,%s,slice(None)],where=%s)" % (inv.get("input"), inv.get("g_slice_in"), inv.get("w_slice_in"), inv.get("mask"))
                    if v != want:
                        fail(st, "the sum is %s, expected %s" % (v, want))
                    env[name] = "overlap_sum"
                elif v == "sum_args.slice_out(window_idx=%s,gene_idx=%s,group_idx=%s)" % (inv["w_idx"], inv["g_idx"], inv["te_idx"]):
                    env[name] = "slice_out"
                elif isinstance(st.targets[0], ast.Subscript) and U(st.targets[0].value) == "sum_args.output":
                    inv = {v_: k for k, v_ in env.items()}
                    if U(st.targets[0].slice) != inv.get("slice_out") or v != "np.divide(%s,%s)" % (inv.get("overlap_sum"), inv.get("divisor")):
                        fail(st, "the assignment to the output array: %s" % ast.unparse(st)[:120])
                    done = True
                else:
                    fail(st, "statement of the window loop: %s" % ast.unparse(st)[:80])
            elif not is_log(st):
                fail(st, "statement of the window loop: %s" % ast.unparse(st)[:80])
        if not done:
            fail(wl, "the window loop does not assign to the output array")
        for k, role in env.items():
            if role == "unused_tuple":
                reads = [n for n in ast.walk(fn) if isinstance(n, ast.Name) and n.id == k and isinstance(n.ctx, ast.Load)]
                if reads:
                    fail(fn, "%s is read" % k)
        return PROCESS_SUM


PROCESS_SUM = """
(* _process_sum, for one parameter set *)
Definition gen_process_sum (sa : sumargs) (lv : level) (my_windows : list Z) (my_names : list N) (ov_names : list N)
    (te_indices : list (option nat)) (te_names : list N) (where_ : N -> list bool) (gd : N -> gene) (ov : oarrays) (T : nat)
    (acc : dlog) : dstate :=
  let w_indices := map (fun w : option Z => match w with Some z => last_indexZ z my_windows | None => None end) (sa_windows sa) in
  fold_left (fun (st_ : dstate) (gene_name : N) =>
    match st_ with DFailed => DFailed | DRunning a1 =>
      let gene_datum := gd gene_name in
      match last_index gene_name my_names with None => DFailed | Some g_idx =>
        match all_some (map (sa_div sa gene_datum) (sa_windows sa)) with None => DFailed | Some divisors =>
          fold_left (fun (st_ : dstate) (tn : option nat * N) =>
            match st_ with DFailed => DFailed | DRunning a2 =>
              match fst tn with None => DFailed | Some te_idx =>
                let mask := where_ (snd tn) in
                fold_left (fun (st_ : dstate) (wd : option nat * Z) =>
                  match st_ with DFailed => DFailed | DRunning a3 =>
                    match sa_slice_in sa (fst wd) g_idx with None => DFailed | Some gw =>
                      let overlap_sum := masked_sum mask (orow (side_arr (sa_side sa)) (fst gw) (snd gw) T ov) in
                      match sa_slice_out sa (fst wd) g_idx te_idx with None => DFailed | Some twg =>
                        DRunning (dassign lv (sa_side sa) (fst (fst twg)) (snd (fst twg)) (snd twg) overlap_sum (snd wd) a3)
                      end end end) (combine w_indices divisors) (DRunning a2)
              end end) (combine te_indices te_names) (DRunning a1)
        end end end) ov_names (DRunning acc).
"""

PARAM_SETS = """
(* the three parameter sets of _list_sum_input_outputs *)
Definition gen_sa_left (ov_windows : list Z) : sumargs :=
  mkSA SL (map Some ov_windows)
       (fun w g => match w with Some wi => Some (g, wi) | None => None end)
       (fun w g t => match w with Some wi => Some (t, wi, g) | None => None end)
       (fun g w => match w with Some z => gen_divisor_left (g_start g) (g_stop g) (g_len g) z | None => None end).
Definition gen_sa_intra (ov_windows : list Z) : sumargs :=
  mkSA SI [None]
       (fun _ g => Some (g, 0%nat))
       (fun w g t => match w with None => Some (t, 0%nat, g) | Some _ => None end)
       (fun g w => gen_divisor_intra (g_start g) (g_stop g) (g_len g) (match w with None => true | Some _ => false end)).
Definition gen_sa_right (ov_windows : list Z) : sumargs :=
  mkSA SR (map Some ov_windows)
       (fun w g => match w with Some wi => Some (g, wi) | None => None end)
       (fun w g t => match w with Some wi => Some (t, wi, g) | None => None end)
       (fun g w => match w with Some z => Some (gen_divisor_right (g_start g) (g_stop g) (g_len g) z) | None => None end).
Definition gen_sa (sd : side) : list Z -> sumargs := match sd with SL => gen_sa_left | SI => gen_sa_intra | SR => gen_sa_right end.

(* the labels MergeData._open_new_file sets up from its configuration, and the dictionaries over them *)
Definition gen_my_windows (cfg_windows : list Z) : list Z := cfg_windows.
Definition gen_my_gene_names (container_names : list N) : list N := container_names.
Definition gen_group_names (lv : level) (tes : list te) : list N := nsortu (map (col lv) tes).

(* MergeData.sum after its three guards: the six summations in the order `order` (random.shuffle) *)
Definition gen_sum (order : list (level * side)) (cfg_windows : list Z) (container_names : list N)
    (ov_names : list N) (ov_windows : list Z) (gd : N -> gene) (tes : list te) (ov : oarrays) : dstate :=
  fold_left (fun (st_ : dstate) (ls : level * side) =>
    match st_ with DFailed => DFailed | DRunning a =>
      let names := gen_group_names (fst ls) tes in
      gen_process_sum (gen_sa (snd ls) ov_windows) (fst ls) (gen_my_windows cfg_windows) (gen_my_gene_names container_names) ov_names
                      (map (fun t => last_index t names) names) names
                      (fun name => map (fun t => (col (fst ls) t =? name)%N) tes) gd ov (length tes) a
    end) order (DRunning []).

(* MergeData.sum as a whole: the three guards on the overlap data first (Gen/GenGuards.v, translated by py2gallina_guards.py;
   a refusal is a ValueError = None), then the summations *)
Definition gen_sum_checked (order : list (level * side)) (my_chromosome ov_chromosome : N) (cfg_windows : list Z) (container_names : list N)
    (ov_names : list N) (ov_windows : list Z) (gd : N -> gene) (tes : list te) (ov : oarrays) : option dstate :=
  if negb (gen_validate_chromosome (Some my_chromosome) (Some ov_chromosome)) then None
  else if negb (gen_validate_windows (Some (gen_my_windows cfg_windows)) (Some ov_windows)) then None
  else if negb (gen_validate_gene_names (Some (gen_my_gene_names container_names)) (Some ov_names)) then None
  else Some (gen_sum order cfg_windows container_names ov_names ov_windows gd tes ov).
"""

HEADER = """(* GENERATED by /verif/translator/py2gallina_merge.py from the current /repo sources. Do not edit. *)
From Coq Require Import ZArith NArith List Bool.
From TEV Require Import Model.Pipeline Model.OverlapArr Model.MergeArr Model.Guards Gen.Gen Gen.GenGuards.
Import ListNotations.
"""


def main():
    repo, outdir = sys.argv[1], sys.argv[2]
    os.makedirs(outdir, exist_ok=True)
    msg, rc = "translated %s MergeData._process_sum, _list_sum_input_outputs, _list_density_args, sum, the slice functions and the labels" % FNAME, 0
    try:
        t = T(repo)
        fields = t.fields()
        if sorted(fields) != sorted(["input", "output", "windows", "te_idx_name", "slice_in", "slice_out", "where", "divisor_func"]):
            fail(None, "fields of _SummationArgs: %s" % fields)
        t.labels()
        t.slices()
        t.param_sets(fields)
        text = HEADER + t.process_sum() + PARAM_SETS
    except Unsupported as u:
        msg, rc = "UNSUPPORTED %s" % u, 2
        text = HEADER + "(* translation refused: %s *)\nDefinition translation_refused : False := I.\n" % str(u).replace("*)", "* )")
    except (SyntaxError, OSError, KeyError, IndexError, AttributeError, TypeError, UnboundLocalError) as e:
        msg, rc = "UNSUPPORTED cannot read sources: %s: %s" % (type(e).__name__, e), 2
        text = HEADER + "Definition translation_refused : False := I.\n"
    print(msg)
    with open(os.path.join(outdir, "merge.status"), "w") as f:
        f.write("%s\nexit %d\n" % (msg, rc))
    p = os.path.join(outdir, "GenMerge.v")
    if not os.path.exists(p) or open(p).read() != text:
        with open(p, "w") as f:
            f.write(text)
    return rc


if __name__ == "__main__":
    sys.exit(main())
