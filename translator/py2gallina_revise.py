#!/usr/bin/env python3
"""py2gallina_revise: translate the recursion of ReviseAnno (transposon/revise_annotation.py: call_merge,
merge_by_like and the helpers they call) into Gallina functions over Model/Frame.v.

usage: py2gallina_revise.py <repo> <outdir>     writes <outdir>/GenRevise.v and <outdir>/revise.status

call_merge and merge_by_like become one mutual Fixpoint on an explicit fuel (one unit per call), passing the
state record `rst` (seed frame, search frame, output frame of the current group); hit_scan_overlapping,
determine_seed_stop, clear_array_by_index, set_seed_stop and update_data_frame are inlined where called.
Statements are translated generically (assignment, if/elif/else, for over a list folding the locals it
assigns, return, call); expressions over data frames are read through the following table, which is part of
the trusted base:

  self.seed_frame / self.search_frame                      (seed st) / (search st)
  self.chrom_specific_frame_dict[self.current_te_identity] (out st)
  F.empty                                                  frame_empty F
  F.iloc[0].to_frame().T                                   iloc0 F                     raises unless negb (frame_empty F)
  R.index.values[0]   R.Start.values[0]   R.Stop.values[0] row_label R, row_start R, row_stop R     (R a one-row frame)
  int(x)                                                   x
  F.loc[l].Start / .Stop                                   row_start/row_stop (loc F l) raises unless has_label F l
  F[cond over F.Start, F.Stop].index.to_list()             labels_where (fun r => cond) F
  F.drop(index=L [, axis=0], inplace=True)                 F := drop_labels F L        raises unless has_labels F L
  len(L)                                                   Z.of_nat (length L)
  R.Stop = x                                               R := set_stop R x
  R.astype({... "int32"})                                  R   (narrowing to int32 is outside the model: coordinates <= 2^31-1)
  pd.concat([F, R])                                        F ++ [R]
  a store to self.<attr> that no translated method reads   skipped
A frame is a value: an in-place drop on a parameter rebinds that parameter only.
Fail-closed: anything else aborts with exit status 2 and the generated file does not type-check.
"""
import ast, os, sys


class Unsupported(Exception):
    pass


FNAME = "transposon/revise_annotation.py"
REC = {"call_merge": [], "merge_by_like": [("seed_idx", "Z"), ("seed_row", "row"), ("to_drop", "bool")]}
REC_DEFAULTS = {"merge_by_like": {"to_drop": "true"}}
HELPERS = {"hit_scan_overlapping": [("seed_start", "Z"), ("seed_stop", "Z")],
           "determine_seed_stop": [("seed_stop", "Z"), ("array_of_hits", "labels")],
           "clear_array_by_index": [("dataframe", "frame"), ("array_of_hits", "labels")],
           "set_seed_stop": [("seed_row", "row"), ("new_seed_stop", "Z")],
           "update_data_frame": [("seed_row", "row")]}
STATE = {"seed_frame": ("seed", "set_seed"), "search_frame": ("search", "set_search")}
COLTYPE = {"Z": "Z", "bool": "bool", "row": "row", "frame": "frame", "labels": "list Z"}


def fail(node, msg):
    raise Unsupported("%s:%s: %s" % (FNAME, getattr(node, "lineno", "?"), msg))


def dotted(e):
    parts = []
    while isinstance(e, ast.Attribute):
        parts.append(e.attr)
        e = e.value
    if isinstance(e, ast.Name):
        parts.append(e.id)
        return ".".join(reversed(parts))
    return None


def is_out(e):
    return isinstance(e, ast.Subscript) and dotted(e.value) == "self.chrom_specific_frame_dict" and dotted(e.slice) == "self.current_te_identity"


class T:
    def __init__(self, repo):
        src = open(os.path.join(repo, FNAME)).read()
        tree = ast.parse(src)
        self.cls = [n for n in tree.body if isinstance(n, ast.ClassDef) and n.name == "ReviseAnno"]
        if not self.cls:
            fail(tree, "class ReviseAnno not found")
        self.cls = self.cls[0]
        self.methods = {n.name: n for n in self.cls.body if isinstance(n, ast.FunctionDef)}
        for m in list(REC) + list(HELPERS):
            if m not in self.methods:
                fail(self.cls, "method %s not found" % m)
        self.n = 0
        # attributes of self read anywhere in the translated methods
        self.read_attrs = set()
        for m in list(REC) + list(HELPERS):
            for node in ast.walk(self.methods[m]):
                if isinstance(node, ast.Attribute) and isinstance(node.ctx, ast.Load) and isinstance(node.value, ast.Name) and node.value.id == "self":
                    self.read_attrs.add(node.attr)

    def fresh(self, p):
        self.n += 1
        return "%s%d" % (p, self.n)

    def params(self, name, spec):
        m = self.methods[name]
        static = any(dotted(d) == "staticmethod" for d in m.decorator_list)
        if any(dotted(d) != "staticmethod" for d in m.decorator_list):
            fail(m, "decorator on %s" % name)
        ps = [a.arg for a in m.args.args]
        if not static:
            if not ps or ps[0] != "self":
                fail(m, "first parameter of %s is not self" % name)
            ps = ps[1:]
        if ps != [p for p, _t in spec] or m.args.vararg or m.args.kwarg or m.args.kwonlyargs:
            fail(m, "parameters of %s are %s, expected %s" % (name, ps, [p for p, _t in spec]))
        return m

    # ---------------- expressions: returns (text, type, guards)
    def expr(self, e, env):
        if isinstance(e, ast.Constant):
            if isinstance(e.value, bool):
                return ("true" if e.value else "false"), "bool", []
            if isinstance(e.value, int):
                return "(%d)" % e.value, "Z", []
            fail(e, "constant %r" % (e.value,))
        if isinstance(e, ast.Name):
            if e.id in env:
                return env[e.id][0], env[e.id][1], []
            fail(e, "unbound name %s" % e.id)
        d = dotted(e)
        if d in ("self.seed_frame", "self.search_frame"):
            return "(%s st)" % STATE[d[5:]][0], "frame", []
        if is_out(e):
            return "(out st)", "frame", []
        if isinstance(e, ast.Attribute):
            # F.empty
            if e.attr == "empty":
                t, ty, g = self.expr(e.value, env)
                if ty == "frame":
                    return "(frame_empty %s)" % t, "bool", g
            # F.iloc[0].to_frame().T
            if e.attr == "T" and isinstance(e.value, ast.Call) and isinstance(e.value.func, ast.Attribute) and e.value.func.attr == "to_frame" \
                    and not e.value.args and not e.value.keywords:
                sub = e.value.func.value
                if isinstance(sub, ast.Subscript) and isinstance(sub.value, ast.Attribute) and sub.value.attr == "iloc" \
                        and isinstance(sub.slice, ast.Constant) and sub.slice.value == 0:
                    t, ty, g = self.expr(sub.value.value, env)
                    if ty == "frame":
                        return "(iloc0 %s)" % t, "row", g + ["(negb (frame_empty %s))" % t]
            # F.loc[l].Start / .Stop
            if e.attr in ("Start", "Stop") and isinstance(e.value, ast.Subscript) and isinstance(e.value.value, ast.Attribute) \
                    and e.value.value.attr == "loc":
                t, ty, g = self.expr(e.value.value.value, env)
                l, lty, lg = self.expr(e.value.slice, env)
                if ty == "frame" and lty == "Z":
                    return "(row_%s (loc %s %s))" % (e.attr.lower(), t, l), "Z", g + lg + ["(has_label %s %s)" % (t, l)]
            fail(e, "attribute expression %s" % ast.unparse(e))
        if isinstance(e, ast.Subscript):
            # R.index.values[0], R.Start.values[0], R.Stop.values[0]
            if isinstance(e.slice, ast.Constant) and e.slice.value == 0 and isinstance(e.value, ast.Attribute) and e.value.attr == "values" \
                    and isinstance(e.value.value, ast.Attribute):
                col = e.value.value.attr
                t, ty, g = self.expr(e.value.value.value, env)
                if ty == "row" and col in ("index", "Start", "Stop"):
                    return "(row_%s %s)" % ({"index": "label", "Start": "start", "Stop": "stop"}[col], t), "Z", g
            fail(e, "subscript expression %s" % ast.unparse(e))
        if isinstance(e, ast.Call):
            f = e.func
            if isinstance(f, ast.Name) and f.id == "int" and len(e.args) == 1 and not e.keywords:
                t, ty, g = self.expr(e.args[0], env)
                if ty == "Z":
                    return t, "Z", g
            if isinstance(f, ast.Name) and f.id == "len" and len(e.args) == 1 and not e.keywords:
                t, ty, g = self.expr(e.args[0], env)
                if ty == "labels":
                    return "(Z.of_nat (length %s))" % t, "Z", g
            # F[cond].index.to_list()
            if isinstance(f, ast.Attribute) and f.attr in ("to_list", "tolist") and not e.args and not e.keywords \
                    and isinstance(f.value, ast.Attribute) and f.value.attr == "index" and isinstance(f.value.value, ast.Subscript):
                sub = f.value.value
                t, ty, g = self.expr(sub.value, env)
                if ty == "frame":
                    r = self.fresh("r")
                    c = self.mask(sub.slice, env, ast.unparse(sub.value), r)
                    return "(labels_where (fun %s => %s) %s)" % (r, c, t), "labels", g
            # pd.concat([F, R])
            if dotted(f) == "pd.concat" and len(e.args) == 1 and not e.keywords:
                arg = e.args[0]
                if isinstance(arg, ast.Name) and arg.id in env and env[arg.id][1] == "framelist":
                    return env[arg.id][0], "frame", []
                if isinstance(arg, ast.List):
                    t, ty, g = self.expr(arg, env)
                    if ty == "framelist":
                        return t, "frame", g
            # R.astype({...})
            if isinstance(f, ast.Attribute) and f.attr == "astype" and len(e.args) == 1 and not e.keywords and isinstance(e.args[0], ast.Dict):
                t, ty, g = self.expr(f.value, env)
                vals = [v.value for v in e.args[0].values if isinstance(v, ast.Constant)]
                if ty == "row" and len(vals) == len(e.args[0].values) and all(v in ("int32", "int64") for v in vals):
                    return t, "row", g
            fail(e, "call %s" % ast.unparse(e)[:100])
        if isinstance(e, ast.List):
            parts = [self.expr(x, env) for x in e.elts]
            tys = set(p[1] for p in parts)
            g = sum((p[2] for p in parts), [])
            if tys == {"Z"}:
                return "[" + "; ".join(p[0] for p in parts) + "]", "labels", g
            if tys and tys <= {"frame", "row"}:
                return "(" + " ++ ".join(p[0] if p[1] == "frame" else "[%s]" % p[0] for p in parts) + ")", "framelist", g
            fail(e, "list %s" % ast.unparse(e))
        if isinstance(e, ast.Compare) and len(e.ops) == 1:
            a, aty, ag = self.expr(e.left, env)
            b, bty, bg = self.expr(e.comparators[0], env)
            if aty == "Z" and bty == "Z":
                op = {ast.Lt: "<?", ast.LtE: "<=?", ast.Gt: ">?", ast.GtE: ">=?", ast.Eq: "=?"}.get(type(e.ops[0]))
                if op:
                    return "(%s %s %s)" % (a, op, b), "bool", ag + bg
                if isinstance(e.ops[0], ast.NotEq):
                    return "(negb (%s =? %s))" % (a, b), "bool", ag + bg
            fail(e, "comparison %s" % ast.unparse(e))
        if isinstance(e, ast.UnaryOp) and isinstance(e.op, ast.Not):
            t, ty, g = self.expr(e.operand, env)
            if ty == "bool":
                return "(negb %s)" % t, "bool", g
        if isinstance(e, ast.BoolOp):
            parts = [self.expr(v, env) for v in e.values]
            if all(p[1] == "bool" for p in parts) and not any(p[2] for p in parts[1:]):
                return "(" + (" && " if isinstance(e.op, ast.And) else " || ").join(p[0] for p in parts) + ")", "bool", parts[0][2]
        fail(e, "expression %s" % ast.unparse(e)[:100])

    def mask(self, c, env, fsrc, r):
        """boolean mask over the columns of the frame whose source text is fsrc, read for one row r"""
        if isinstance(c, ast.BinOp) and isinstance(c.op, (ast.BitAnd, ast.BitOr)):
            return "(%s %s %s)" % (self.mask(c.left, env, fsrc, r), "&&" if isinstance(c.op, ast.BitAnd) else "||", self.mask(c.right, env, fsrc, r))
        if isinstance(c, ast.UnaryOp) and isinstance(c.op, ast.Invert):
            return "(negb %s)" % self.mask(c.operand, env, fsrc, r)
        if isinstance(c, ast.Compare) and len(c.ops) == 1:
            def side(x):
                if isinstance(x, ast.Attribute) and x.attr in ("Start", "Stop") and ast.unparse(x.value) == fsrc:
                    return "(row_%s %s)" % (x.attr.lower(), r)
                t, ty, g = self.expr(x, env)
                if ty != "Z" or g:
                    fail(x, "mask operand %s" % ast.unparse(x))
                return t
            op = {ast.Lt: "<?", ast.LtE: "<=?", ast.Gt: ">?", ast.GtE: ">=?", ast.Eq: "=?"}.get(type(c.ops[0]))
            if op:
                return "(%s %s %s)" % (side(c.left), op, side(c.comparators[0]))
        fail(c, "mask %s" % ast.unparse(c))

    # ---------------- statements
    def guard(self, gs, body):
        gs = list(dict.fromkeys(gs))
        if not gs:
            return body
        return "(if negb (%s) then Raised else %s)" % (" && ".join(gs), body)

    def skippable(self, st):
        if isinstance(st, ast.Pass):
            return True
        if isinstance(st, ast.Expr) and isinstance(st.value, ast.Constant) and isinstance(st.value.value, str):
            return True
        if isinstance(st, ast.Expr) and isinstance(st.value, ast.Call):
            d = dotted(st.value.func) or ""
            if d.startswith("self.logger.") or d.startswith("self._logger."):
                return True
        return False

    def helper_call(self, e):
        if isinstance(e, ast.Call):
            d = dotted(e.func) or ""
            for pre in ("self.", "ReviseAnno."):
                if d.startswith(pre) and d[len(pre):] in HELPERS:
                    return d[len(pre):]
        return None

    def rec_call(self, e):
        if isinstance(e, ast.Call):
            d = dotted(e.func) or ""
            if d.startswith("self.") and d[5:] in REC:
                return d[5:]
        return None

    def inline(self, name, call, env, k, depth):
        """inline helper `name`; k(value_text, type) -> text continues with the returned value"""
        if depth > 3:
            fail(call, "inlining depth")
        spec = HELPERS[name]
        m = self.params(name, spec)
        if call.keywords or len(call.args) != len(spec):
            fail(call, "arguments of %s" % name)
        tag = self.fresh("h")
        henv, lets, gs = {}, "", []
        for (p, ty), a in zip(spec, call.args):
            t, aty, g = self.expr(a, env)
            if aty != ty:
                fail(a, "argument %s of %s has type %s, expected %s" % (p, name, aty, ty))
            gs += g
            gname = "%s_%s" % (tag, p)
            lets += "let %s := %s in " % (gname, t)
            henv[p] = (gname, ty)
        body = self.stmts(m.body, henv, lambda v, ty, env2: k(v, ty), depth + 1, tag)
        return self.guard(gs, "(" + lets + body + ")")

    def stmts(self, ss, env, kret, depth, tag):
        """kret(value_text_or_None, type_or_None, env) -> text: what a return (or the end of the body) continues with"""
        if not ss:
            return kret(None, None, env)
        st, rest = ss[0], ss[1:]
        cont = lambda env2=env: self.stmts(rest, env2, kret, depth, tag)
        if self.skippable(st):
            return cont()
        if isinstance(st, ast.Return):
            if st.value is None:
                return kret(None, None, env)
            t, ty, g = self.expr(st.value, env)
            return self.guard(g, kret(t, ty, env))
        if isinstance(st, ast.If):
            c, cty, g = self.expr(st.test, env)
            if cty != "bool":
                fail(st, "condition of type %s" % cty)
            a = self.stmts(st.body + rest, env, kret, depth, tag)
            b = self.stmts(st.orelse + rest, env, kret, depth, tag)
            return self.guard(g, "(if %s then %s else %s)" % (c, a, b))
        if isinstance(st, ast.For):
            if st.orelse or not isinstance(st.target, ast.Name):
                fail(st, "for loop shape")
            l, lty, g = self.expr(st.iter, env)
            if lty != "labels":
                fail(st, "for over %s" % lty)
            assigned = []
            for node in ast.walk(ast.Module(body=st.body, type_ignores=[])):
                if isinstance(node, ast.Assign):
                    if len(node.targets) != 1 or not isinstance(node.targets[0], ast.Name) or node.targets[0].id not in env:
                        fail(node, "assignment inside for")
                    if node.targets[0].id not in assigned:
                        assigned.append(node.targets[0].id)
                elif isinstance(node, (ast.Return, ast.Break, ast.Continue, ast.For, ast.While, ast.Call)) :
                    if isinstance(node, ast.Call):
                        continue
                    fail(node, "%s inside for" % type(node).__name__)
            if len(assigned) != 1 or env[assigned[0]][1] != "Z":
                fail(st, "for loop must update exactly one integer local, updates %s" % assigned)
            acc = assigned[0]
            x = "%s_%s" % (tag, st.target.id)
            benv = dict(env)
            benv[st.target.id] = (x, "Z")
            accn = self.fresh(env[acc][0] + "_")
            benv[acc] = (accn, "Z")
            guards = []

            def body_k(v, ty, env2):
                return env2[acc][0]
            body = self.for_body(st.body, benv, acc, guards)
            for gtext in guards:
                if accn in gtext:
                    fail(st, "a raise condition inside the loop depends on the accumulator")
            newacc = self.fresh(env[acc][0] + "_")
            env2 = dict(env)
            env2[acc] = (newacc, "Z")
            gl = ["(forallb (fun %s => %s) %s)" % (x, " && ".join(dict.fromkeys(guards)), l)] if guards else []
            return self.guard(g + gl, "(let %s := fold_left (fun %s %s => %s) %s %s in %s)" % (newacc, accn, x, body, l, env[acc][0], cont(env2)))
        if isinstance(st, ast.Assign):
            if len(st.targets) != 1:
                fail(st, "multiple assignment")
            tgt = st.targets[0]
            h = self.helper_call(st.value)
            if h:
                def k(v, ty):
                    return self.assign(tgt, v, ty, env, cont, st)
                return self.inline(h, st.value, env, k, depth)
            # dead store to an attribute nobody reads
            if isinstance(tgt, ast.Attribute) and isinstance(tgt.value, ast.Name) and tgt.value.id == "self" and tgt.attr not in STATE:
                if tgt.attr in self.read_attrs:
                    fail(st, "store to self.%s, which a translated method reads" % tgt.attr)
                return cont()
            t, ty, g = self.expr(st.value, env)
            return self.guard(g, self.assign(tgt, t, ty, env, cont, st))
        if isinstance(st, ast.Expr) and isinstance(st.value, ast.Call):
            call = st.value
            r = self.rec_call(call)
            if r:
                spec = REC[r]
                self.params(r, spec)
                args, gs = [], []
                given = {}
                for (p, ty), a in zip(spec, call.args):
                    given[p] = a
                for kw in call.keywords:
                    if kw.arg in given or kw.arg not in [p for p, _ in spec]:
                        fail(call, "keyword %s" % kw.arg)
                    given[kw.arg] = kw.value
                for p, ty in spec:
                    if p in given:
                        t, aty, g = self.expr(given[p], env)
                        if aty != ty:
                            fail(call, "argument %s of %s has type %s" % (p, r, aty))
                        gs += g
                        args.append(t)
                    elif p in REC_DEFAULTS.get(r, {}):
                        args.append(REC_DEFAULTS[r][p])
                    else:
                        fail(call, "missing argument %s" % p)
                calltext = "(gen_%s f %s st)" % (r, " ".join(args)) if args else "(gen_%s f st)" % r
                tail = self.stmts(rest, env, kret, depth, tag)
                if tail == "(Ok st)":
                    return self.guard(gs, calltext)
                return self.guard(gs, "(match %s with Ok st => %s | Raised => Raised | OutOfFuel => OutOfFuel end)" % (calltext, tail))
            h = self.helper_call(call)
            if h:
                return self.inline(h, call, env, lambda v, ty: cont(), depth)
            # F.drop(index=L [, axis=0], inplace=True)
            if isinstance(call.func, ast.Attribute) and call.func.attr == "drop" and not call.args:
                kws = {kw.arg: kw.value for kw in call.keywords}
                if set(kws) <= {"index", "axis", "inplace"} and "index" in kws and isinstance(kws.get("inplace"), ast.Constant) \
                        and kws["inplace"].value is True and ("axis" not in kws or (isinstance(kws["axis"], ast.Constant) and kws["axis"].value == 0)):
                    f_t, f_ty, fg = self.expr(call.func.value, env)
                    l_t, l_ty, lg = self.expr(kws["index"], env)
                    if f_ty == "frame" and l_ty == "labels":
                        new = "(drop_labels %s %s)" % (f_t, l_t)
                        return self.guard(fg + lg + ["(has_labels %s %s)" % (f_t, l_t)], self.assign(call.func.value, new, "frame", env, cont, st))
            fail(st, "call statement %s" % ast.unparse(call)[:100])
        fail(st, "statement %s" % type(st).__name__)

    def for_body(self, ss, env, acc, guards):
        """straight-line / if body of a for loop as an expression giving the new accumulator"""
        if not ss:
            return env[acc][0]
        st, rest = ss[0], ss[1:]
        if self.skippable(st):
            return self.for_body(rest, env, acc, guards)
        if isinstance(st, ast.If):
            c, cty, g = self.expr(st.test, env)
            guards += g
            return "(if %s then %s else %s)" % (c, self.for_body(st.body + rest, env, acc, guards), self.for_body(st.orelse + rest, env, acc, guards))
        if isinstance(st, ast.Assign):
            t, ty, g = self.expr(st.value, env)
            guards += g
            if ty != "Z":
                fail(st, "assignment of %s inside for" % ty)
            n = self.fresh(env[acc][0] + "_")
            env2 = dict(env)
            env2[acc] = (n, "Z")
            return "(let %s := %s in %s)" % (n, t, self.for_body(rest, env2, acc, guards))
        fail(st, "statement inside for: %s" % type(st).__name__)

    def assign(self, tgt, t, ty, env, cont, node):
        d = dotted(tgt)
        if d in ("self.seed_frame", "self.search_frame"):
            if ty != "frame":
                fail(node, "%s := %s" % (d, ty))
            return "(let st := %s %s st in %s)" % (STATE[d[5:]][1], t, cont())
        if is_out(tgt):
            if ty not in ("frame",):
                fail(node, "output frame := %s" % ty)
            return "(let st := set_out %s st in %s)" % (t, cont())
        if isinstance(tgt, ast.Name):
            if ty is None:
                fail(node, "assignment of no value")
            g = self.fresh("v_%s_" % tgt.id)
            env2 = dict(env)
            env2[tgt.id] = (g, ty)
            return "(let %s := %s in %s)" % (g, t, cont(env2))
        if isinstance(tgt, ast.Attribute) and tgt.attr == "Stop" and isinstance(tgt.value, ast.Name) and tgt.value.id in env \
                and env[tgt.value.id][1] == "row" and ty == "Z":
            g = self.fresh("v_%s_" % tgt.value.id)
            env2 = dict(env)
            env2[tgt.value.id] = (g, "row")
            return "(let %s := set_stop %s %s in %s)" % (g, env[tgt.value.id][0], t, cont(env2))
        fail(node, "assignment target %s" % ast.unparse(tgt))

    def translate(self):
        defs = []
        for name, spec in REC.items():
            m = self.params(name, spec)
            dflt = m.args.defaults
            if name == "merge_by_like":
                if len(dflt) != 1 or not (isinstance(dflt[0], ast.Constant) and dflt[0].value is True):
                    fail(m, "default of to_drop")
            elif dflt:
                fail(m, "defaults of %s" % name)
            env = {p: ("p_" + p, ty) for p, ty in spec}
            body = self.stmts(m.body, env, lambda v, ty, env2: "(Ok st)", 0, "t")
            ps = "".join(" (p_%s : %s)" % (p, COLTYPE[ty]) for p, ty in spec)
            defs.append("gen_%s (fuel : nat)%s (st : rst) {struct fuel} : res :=\n  match fuel with O => OutOfFuel | S f => %s end" % (name, ps, body))
        return "Fixpoint " + "\nwith ".join(defs) + ".\n"


HEADER = """(* GENERATED by /verif/translator/py2gallina_revise.py from the current /repo sources. Do not edit. *)
From Coq Require Import ZArith List Bool.
From TEV Require Import Model.Frame.
Import ListNotations. Open Scope Z_scope.
"""


def main():
    repo, outdir = sys.argv[1], sys.argv[2]
    os.makedirs(outdir, exist_ok=True)
    msg, rc = "translated %s ReviseAnno.call_merge / merge_by_like" % FNAME, 0
    try:
        text = HEADER + T(repo).translate()
    except Unsupported as u:
        msg, rc = "UNSUPPORTED %s" % u, 2
        text = HEADER + "(* translation refused: %s *)\nDefinition translation_refused : False := I.\n" % str(u).replace("*)", "* )")
    except (SyntaxError, OSError) as e:
        msg, rc = "UNSUPPORTED cannot read sources: %s" % e, 2
        text = HEADER + "Definition translation_refused : False := I.\n"
    print(msg)
    with open(os.path.join(outdir, "revise.status"), "w") as f:
        f.write("%s\nexit %d\n" % (msg, rc))
    p = os.path.join(outdir, "GenRevise.v")
    if not os.path.exists(p) or open(p).read() != text:
        with open(p, "w") as f:
            f.write(text)
    return rc


if __name__ == "__main__":
    sys.exit(main())
