#!/usr/bin/env python3
"""py2gallina_cf: translate the control flow of the queue/event loops of TE_Density into
interaction programs (Model/PyProg.v).

usage: py2gallina_cf.py <repo> <outdir>      writes <outdir>/GenCF.v

Targets (table FRAGMENTS below): transposon/worker.py WorkerProcess.run (with _send_result inlined)
and transposon/overlap_manager.py _ProgressBars.handle_chrome (with _pop, _collect inlined).

Reading of the Python constructs (part of the trusted base):
  * a call listed in the fragment's PRIMS table whose result comes from the environment becomes a
    `Vis` node; its continuation gets `RVal v` (the value returned) or `RRaise e` (queue.Empty /
    queue.Full raised).  A raised exception goes to the innermost enclosing `except` clause whose class
    covers it (queue.Empty, queue.Full, Exception, bare; KeyboardInterrupt covers neither: signals are
    not part of the modelled environment), otherwise the program is `Crash`;
  * recording calls (list.append, put_nowait) become `Act` nodes; execute_job is the pure `exec`;
  * logger / progress-bar calls, docstrings and methods that only log are skipped;
  * `while` is a Fixpoint on explicit fuel (`Fuel` when exhausted); `continue`, `break`, `return`,
    `if/else`, `try/except/else`, `a or b`, `not a`, `x is None`, `isinstance(x, C)` as in Python;
  * local variables are `val`s, unassigned locals read as VNone; truthiness is `truthy`;
  * methods of the same class called on `self` are inlined (no recursion, no loop inside a callee).
Fail-closed: anything else aborts with exit status 2 naming the source location, and the generated file
then contains a definition that does not type-check, so nothing depending on it builds.
"""
import ast, os, sys


class Unsupported(Exception):
    pass


def fail(node, msg, fname="?"):
    raise Unsupported("%s:%s: %s" % (fname, getattr(node, "lineno", "?"), msg))


EXN_ALL = ("EEmpty", "EFull")
HANDLER_CLASSES = {"queue.Empty": {"EEmpty"}, "Empty": {"EEmpty"}, "queue.Full": {"EFull"}, "Full": {"EFull"},
                   "KeyboardInterrupt": set(), "Exception": set(EXN_ALL), "BaseException": set(EXN_ALL)}
RAISES = {"QStop": (), "QGet": ("EEmpty",), "QGetNow": ("EEmpty",), "QPut": ("EFull",)}

# fragment table -------------------------------------------------------------------------------
FRAGMENTS = [
    {
        "name": "gen_worker_run", "file": "transposon/worker.py", "cls": "WorkerProcess", "method": "run",
        "params": "(exec : nat -> nat)", "param_names": "exec",
        "prims": {
            "self.stop_event.is_set": ("vis", "QStop", 0, ()),
            "self.input.get": ("vis", "QGet", 0, ("timeout",)),
            "self.output.put": ("vis", "QPut", 1, ("timeout",)),
            "self.input.put_nowait": ("act", "APutBack", 1, ()),
            "self.execute_job": ("pure", "exec_val exec", 1, ()),
        },
        "skip_receivers": ("self._logger",),
        "pending_arg_of": "self._send_result",
        "isinstance": {"Sentinel": "is_sentinel"},
        "consts": {},
    },
    {
        "name": "gen_handle_chrome", "file": "transposon/overlap_manager.py", "cls": "_ProgressBars", "method": "handle_chrome",
        "params": "", "param_names": "",
        "prims": {
            "self.stop_event.is_set": ("vis", "QStop", 0, ()),
            "self.result_queue.get": ("vis", "QGet", 0, ("timeout",)),
            "self.result_queue.get_nowait": ("vis", "QGetNow", 0, ()),
            "self.results.append": ("act", "AAppend", 1, ()),
        },
        "skip_receivers": ("self._logger", "self.chromosomes", "self.gene_names"),
        "isinstance": {"OverlapResult": "is_item"},
        "objects": ("self.result_queue",),
        "consts": {},
    },
]


def dotted(e):
    parts = []
    while isinstance(e, ast.Attribute):
        parts.append(e.attr)
        e = e.value
    if isinstance(e, ast.Name):
        parts.append(e.id)
        return ".".join(reversed(parts))
    return None


class Cx:
    def __init__(self, tr, tag, varmap, aliases, handlers, loop, ret, depth):
        self.tr, self.tag, self.varmap, self.aliases = tr, tag, varmap, aliases
        self.handlers, self.loop, self.ret, self.depth = handlers, loop, ret, depth

    def locals_tuple(self):
        vs = list(self.varmap.values())
        return "tt" if not vs else (vs[0] if len(vs) == 1 else "(" + ", ".join(vs) + ")")

    def locals_type(self):
        n = len(self.varmap)
        return "unit" if n == 0 else " * ".join(["val"] * n)

    def destruct(self, ls="ls"):
        vs = list(self.varmap.values())
        if not vs:
            return ""
        if len(vs) == 1:
            return "let %s := %s in " % (vs[0], ls)
        return "let '(%s) := %s in " % (", ".join(vs), ls)

    def with_(self, **kw):
        c = Cx(self.tr, self.tag, self.varmap, self.aliases, self.handlers, self.loop, self.ret, self.depth)
        for k, v in kw.items():
            setattr(c, k, v)
        return c


class Translator:
    def __init__(self, frag, repo):
        self.frag = frag
        self.fname = frag["file"]
        src = open(os.path.join(repo, frag["file"])).read()
        self.tree = ast.parse(src)
        self.cls = None
        for n in self.tree.body:
            if isinstance(n, ast.ClassDef) and n.name == frag["cls"]:
                self.cls = n
        if self.cls is None:
            fail(self.tree, "class %s not found" % frag["cls"], self.fname)
        self.n = 0
        self.loops = []        # top-level Fixpoints
        self.top_snapshot = None

    def fresh(self, p):
        self.n += 1
        return "%s%d" % (p, self.n)

    def method(self, name, node=None):
        for n in self.cls.body:
            if isinstance(n, ast.FunctionDef) and n.name == name:
                return n
        fail(node or self.cls, "method %s.%s not found" % (self.frag["cls"], name), self.fname)

    # ---- skippable things
    def pure_expr(self, e):
        if isinstance(e, (ast.Constant, ast.Name)):
            return True
        if isinstance(e, ast.Attribute):
            return self.pure_expr(e.value)
        if isinstance(e, ast.JoinedStr):
            return all(self.pure_expr(v.value) if isinstance(v, ast.FormattedValue) else True for v in e.values)
        if isinstance(e, ast.UnaryOp) and isinstance(e.op, ast.Not):
            return self.pure_expr(e.operand)
        if isinstance(e, ast.BoolOp):
            return all(self.pure_expr(v) for v in e.values)
        if isinstance(e, ast.BinOp) and isinstance(e.op, (ast.Mod, ast.Add)):
            return self.pure_expr(e.left) and self.pure_expr(e.right)
        if isinstance(e, ast.Tuple):
            return all(self.pure_expr(v) for v in e.elts)
        if isinstance(e, ast.Compare):
            return self.pure_expr(e.left) and all(self.pure_expr(c) for c in e.comparators)
        if isinstance(e, ast.Call):
            f = e.func
            if isinstance(f, ast.Name) and f.id in ("isinstance", "str", "repr", "len"):
                return all(self.pure_expr(a) for a in e.args)
            if isinstance(f, ast.Attribute) and f.attr == "format" and self.pure_expr(f.value):
                return all(self.pure_expr(a) for a in e.args) and all(self.pure_expr(k.value) for k in e.keywords)
        return False

    def is_log_call(self, st, cx):
        if not (isinstance(st, ast.Expr) and isinstance(st.value, ast.Call) and isinstance(st.value.func, ast.Attribute)):
            return False
        recv = dotted(st.value.func.value)
        if recv is None:
            return False
        recv = self.resolve(recv, cx)
        if recv in self.frag["skip_receivers"]:
            return all(self.pure_expr(a) for a in st.value.args) and all(self.pure_expr(k.value) for k in st.value.keywords)
        return False

    def is_docstring(self, st):
        return isinstance(st, ast.Expr) and isinstance(st.value, ast.Constant) and isinstance(st.value.value, str)

    def log_only_block(self, body, cx):
        for st in body:
            if self.is_docstring(st) or self.is_log_call(st, cx) or isinstance(st, ast.Pass):
                continue
            if isinstance(st, ast.Return) and st.value is None:
                continue
            if isinstance(st, ast.If) and self.pure_expr(st.test) and self.log_only_block(st.body, cx) and self.log_only_block(st.orelse, cx):
                continue
            return False
        return True

    def is_log_only_method_call(self, st, cx):
        if isinstance(st, ast.Expr) and isinstance(st.value, ast.Call):
            d = dotted(st.value.func)
            if d and d.startswith("self.") and d.count(".") == 1:
                for n in self.cls.body:
                    if isinstance(n, ast.FunctionDef) and n.name == d[5:]:
                        return self.log_only_block(n.body, cx.with_(aliases={})) and all(self.pure_expr(a) for a in st.value.args)
        return False

    def resolve(self, path, cx):
        head, _, tail = path.partition(".")
        if head in cx.aliases:
            return cx.aliases[head] + ("." + tail if tail else "")
        return path

    # ---- expressions (CPS: k maps the Gallina text of the value to the Gallina text of the rest)
    def expr(self, e, cx, k):
        fn = self.fname
        if isinstance(e, ast.Constant):
            if e.value is None:
                return k("VNone")
            if e.value is True:
                return k("(VBool true)")
            if e.value is False:
                return k("(VBool false)")
            fail(e, "constant %r" % (e.value,), fn)
        if isinstance(e, ast.Name):
            if e.id in cx.varmap:
                return k(cx.varmap[e.id])
            fail(e, "name %s is not a local variable" % e.id, fn)
        if isinstance(e, ast.UnaryOp) and isinstance(e.op, ast.Not):
            return self.expr(e.operand, cx, lambda v: k("(VBool (negb (truthy %s)))" % v))
        if isinstance(e, ast.BoolOp):
            is_or = isinstance(e.op, ast.Or)
            kk, x = self.fresh("kk"), self.fresh("x")

            def chain(vals):
                if len(vals) == 1:
                    return self.expr(vals[0], cx, lambda v: "(%s %s)" % (kk, v))
                return self.expr(vals[0], cx, lambda v: ("(if truthy %s then %s %s else %s)" if is_or else
                                                         "(if truthy %s then %s else %s %s)") %
                                 ((v, kk, v, chain(vals[1:])) if is_or else (v, chain(vals[1:]), kk, v)))
            return "(let %s := (fun %s : val => %s) in %s)" % (kk, x, k(x), chain(e.values))
        if isinstance(e, ast.Compare) and len(e.ops) == 1 and isinstance(e.ops[0], (ast.Is, ast.IsNot)) \
                and isinstance(e.comparators[0], ast.Constant) and e.comparators[0].value is None:
            neg = isinstance(e.ops[0], ast.IsNot)
            return self.expr(e.left, cx, lambda v: k(("(VBool (negb (is_none %s)))" if neg else "(VBool (is_none %s))") % v))
        if isinstance(e, ast.Call):
            f = e.func
            if isinstance(f, ast.Name) and f.id == "isinstance" and len(e.args) == 2 and not e.keywords:
                c = dotted(e.args[1])
                if c not in self.frag["isinstance"]:
                    fail(e, "isinstance against %s" % c, fn)
                return self.expr(e.args[0], cx, lambda v: k("(VBool (%s %s))" % (self.frag["isinstance"][c], v)))
            d = dotted(f)
            if d is None:
                fail(e, "call of a computed function", fn)
            d = self.resolve(d, cx)
            if d in self.frag["prims"]:
                kind, ctor, nargs, kws = self.frag["prims"][d]
                if len(e.args) != nargs or any(kw.arg not in kws for kw in e.keywords):
                    fail(e, "call %s: arguments %s" % (d, ast.unparse(e)), fn)

                def with_args(args, acc):
                    if not args:
                        return self.prim(kind, ctor, acc, cx, k, e)
                    return self.expr(args[0], cx, lambda v: with_args(args[1:], acc + [v]))
                return with_args(list(e.args), [])
            if d.startswith("self.") and d.count(".") == 1:
                return self.inline(d[5:], e, cx, k)
            fail(e, "call %s" % d, fn)
        fail(e, "expression %s" % type(e).__name__, fn)

    def prim(self, kind, ctor, args, cx, k, node):
        if kind == "pure":
            return k("(%s %s)" % (ctor, " ".join(args)))
        if kind == "act":
            return "(Act (%s %s) %s)" % (ctor, " ".join(args), k("VNone"))
        q = "(%s %s)" % (ctor, " ".join(args)) if args else ctor
        a, x, ex = self.fresh("a"), self.fresh("x"), self.fresh("e")
        arms = []
        for exn in EXN_ALL:
            target = "Crash"
            if exn in RAISES[ctor]:
                for classes, hname in cx.handlers:
                    if exn in classes:
                        target = "(%s %s)" % (hname[0], hname[1]())
                        break
            arms.append("%s => %s" % (exn, target))
        return "(Vis %s %s (fun %s => match %s with RVal %s => %s | RRaise %s => match %s with %s end end))" % (
            self.top_snapshot, q, a, a, x, k(x), ex, ex, " | ".join(arms))

    def inline(self, mname, call, cx, k):
        if cx.depth >= 4:
            fail(call, "inlining depth", self.fname)
        m = self.method(mname, call)
        static = any(dotted(d) == "staticmethod" for d in m.decorator_list)
        if any(dotted(d) not in ("staticmethod",) for d in m.decorator_list):
            fail(m, "decorator", self.fname)
        params = [a.arg for a in m.args.args]
        if not static:
            if not params or params[0] != "self":
                fail(m, "first parameter is not self", self.fname)
            params = params[1:]
        if m.args.vararg or m.args.kwarg or m.args.kwonlyargs or m.args.defaults or call.keywords or len(call.args) != len(params):
            fail(call, "call of %s: parameters" % mname, self.fname)
        tag = self.fresh("c")
        assigned = self.assigned_names(m.body)
        aliases, varmap, binds = {}, {}, []
        kret, x = self.fresh("kret"), self.fresh("x")
        head = "(let %s := (fun %s : val => %s) in " % (kret, x, k(x))
        for p, a in zip(params, call.args):
            d = dotted(a)
            if d is not None and self.resolve(d, cx) in self.frag.get("objects", ()):
                if p in assigned:
                    fail(m, "parameter %s bound to an object is reassigned" % p, self.fname)
                aliases[p] = self.resolve(d, cx)
            else:
                varmap[p] = "%s_%s" % (tag, p)
                binds.append((varmap[p], a))
        for v in assigned:
            if v not in varmap:
                varmap[v] = "%s_%s" % (tag, v)
        ncx = Cx(self, tag, varmap, aliases, cx.handlers, None, lambda v, _cx: "(%s %s)" % (kret, v), cx.depth + 1)

        def bind(bs):
            if not bs:
                inits = "".join("let %s := VNone in " % g for p, g in varmap.items() if p not in params)
                return "(" + inits + self.stmts(m.body, ncx, lambda c: c.ret("VNone", c)) + ")"
            g, a = bs[0]
            return self.expr(a, cx, lambda v: "(let %s := %s in %s)" % (g, v, bind(bs[1:])))
        return head + bind(binds) + ")"

    def assigned_names(self, body):
        out = []
        for st in ast.walk(ast.Module(body=body, type_ignores=[])):
            if isinstance(st, (ast.Assign, ast.AugAssign, ast.AnnAssign)):
                ts = st.targets if isinstance(st, ast.Assign) else [st.target]
                for t in ts:
                    if isinstance(t, ast.Name):
                        if t.id not in out:
                            out.append(t.id)
                    else:
                        fail(st, "assignment target %s" % ast.unparse(t), self.fname)
            if isinstance(st, (ast.For, ast.With, ast.FunctionDef, ast.Lambda, ast.ClassDef, ast.Global, ast.Nonlocal,
                               ast.Delete, ast.Yield, ast.YieldFrom, ast.Await, ast.NamedExpr, ast.ListComp, ast.DictComp,
                               ast.SetComp, ast.GeneratorExp, ast.Raise, ast.Assert, ast.Import, ast.ImportFrom)):
                fail(st, "statement/expression %s" % type(st).__name__, self.fname)
        return out

    # ---- statements
    def stmts(self, ss, cx, after):
        """after: callable(cx) -> Gallina text of what follows the block when it ends normally"""
        fn = self.fname
        if not ss:
            return after(cx)
        st, rest = ss[0], ss[1:]

        def cont(c=cx):
            return self.stmts(rest, c, after)
        if self.is_docstring(st) or isinstance(st, ast.Pass) or self.is_log_call(st, cx) or self.is_log_only_method_call(st, cx):
            return cont()
        if isinstance(st, ast.Assign):
            if len(st.targets) != 1 or not isinstance(st.targets[0], ast.Name):
                fail(st, "assignment", fn)
            g = cx.varmap[st.targets[0].id]
            return self.expr(st.value, cx, lambda v: "(let %s := %s in %s)" % (g, v, cont()))
        if isinstance(st, ast.Expr):
            if not isinstance(st.value, ast.Call):
                fail(st, "expression statement", fn)
            return self.expr(st.value, cx, lambda v: cont())
        if isinstance(st, ast.Continue):
            if cx.loop is None:
                fail(st, "continue outside a loop of the translated method", fn)
            return cx.loop[0](cx)
        if isinstance(st, ast.Break):
            if cx.loop is None:
                fail(st, "break outside a loop of the translated method", fn)
            return cx.loop[1](cx)
        if isinstance(st, ast.Return):
            if st.value is None:
                return cx.ret("VNone", cx)
            return self.expr(st.value, cx, lambda v: cx.ret(v, cx))
        if isinstance(st, ast.If):
            kj = self.fresh("kj")
            join = lambda c: "(%s %s)" % (kj, c.locals_tuple())
            body = self.expr(st.test, cx, lambda v: "(if truthy %s then %s else %s)" % (
                v, self.stmts(st.body, cx, join), self.stmts(st.orelse, cx, join)))
            return "(let %s := (fun ls : %s => %s%s) in %s)" % (kj, cx.locals_type(), cx.destruct(), cont(), body)
        if isinstance(st, ast.Try):
            if st.finalbody:
                fail(st, "try/finally", fn)
            kj = self.fresh("kj")
            join = lambda c: "(%s %s)" % (kj, c.locals_tuple())
            text = "(let %s := (fun ls : %s => %s%s) in " % (kj, cx.locals_type(), cx.destruct(), cont())
            new_handlers = []
            for h in st.handlers:
                if h.name is not None:
                    fail(h, "except ... as name", fn)
                if h.type is None:
                    classes = set(EXN_ALL)
                else:
                    ts = h.type.elts if isinstance(h.type, ast.Tuple) else [h.type]
                    classes = set()
                    for t in ts:
                        d = dotted(t)
                        if d not in HANDLER_CLASSES:
                            fail(h, "exception class %s" % d, fn)
                        classes |= HANDLER_CLASSES[d]
                hn = self.fresh("h")
                text += "let %s := (fun ls : %s => %s%s) in " % (hn, cx.locals_type(), cx.destruct(), self.stmts(h.body, cx, join))
                new_handlers.append((classes, (hn, cx.locals_tuple)))
            inner = cx.with_(handlers=new_handlers + list(cx.handlers))
            text += self.stmts(st.body, inner, lambda c: self.stmts(st.orelse, cx, join)) + ")"
            return text
        if isinstance(st, ast.While):
            if st.orelse:
                fail(st, "while/else", fn)
            if cx.depth != 0 or cx.loop is not None or cx.handlers:
                fail(st, "loop nested in a loop, a try block or an inlined method", fn)
            name = "%s_loop%d" % (self.frag["name"], len(self.loops) + 1)
            self.loops.append(None)
            idx = len(self.loops) - 1
            pn = self.frag["param_names"]
            again = lambda c: "(%s %s f kexit %s)" % (name, pn, c.locals_tuple())
            leave = lambda c: "(kexit %s)" % c.locals_tuple()
            lcx = cx.with_(loop=(again, leave))
            body = self.expr(st.test, lcx, lambda v: "(if truthy %s then %s else %s)" % (v, self.stmts(st.body, lcx, again), leave(lcx)))
            self.loops[idx] = ("Fixpoint %s %s (fuel : nat) (kexit : %s -> prog) (ls : %s) {struct fuel} : prog :=\n"
                               "  match fuel with O => Fuel | S f => %s%s end.\n") % (
                name, self.frag["params"], cx.locals_type(), cx.locals_type(), cx.destruct(), body)
            return "(%s %s fuel (fun ls : %s => %s%s) %s)" % (name, pn, cx.locals_type(), cx.destruct(), cont(), cx.locals_tuple())
        fail(st, "statement %s" % type(st).__name__, fn)

    def translate(self):
        m = self.method(self.frag["method"])
        if m.decorator_list or [a.arg for a in m.args.args] != ["self"] or m.args.vararg or m.args.kwarg:
            fail(m, "signature of %s" % self.frag["method"], self.fname)
        names = sorted(self.assigned_names(m.body))      # alphabetical: independent of the order of the initial assignments
        varmap = {v: "v_" + v for v in names}
        self.top_snapshot = "[" + "; ".join(varmap.values()) + "]"
        cx = Cx(self, "v", varmap, {}, [], None, lambda v, c: "(Done %s)" % self.top_snapshot, 0)
        body = self.stmts(m.body, cx, lambda c: c.ret("VNone", c))
        inits = "".join("let %s := VNone in " % g for g in varmap.values())
        main = "Definition %s %s (fuel : nat) : prog :=\n  %s%s.\n" % (self.frag["name"], self.frag["params"], inits, body)
        ixs = "".join("Definition %s_ix_%s : nat := %d.\n" % (self.frag["name"], v, i) for i, v in enumerate(names))
        # the local that holds the result not yet delivered: the argument of the call named in the fragment table
        pa = self.frag.get("pending_arg_of")
        if pa:
            args = [c.args[0].id for c in ast.walk(m) if isinstance(c, ast.Call) and dotted(c.func) == pa and len(c.args) == 1 and isinstance(c.args[0], ast.Name)]
            if len(set(args)) != 1 or args[0] not in names:
                fail(m, "cannot tell which local is passed to %s (%s)" % (pa, args), self.fname)
            ixs += "Definition %s_ix_pending : nat := %d.\n" % (self.frag["name"], names.index(args[0]))
        return "".join(self.loops) + main + ixs + \
            "(* locals of %s.%s, in snapshot order: %s *)\n" % (self.frag["cls"], self.frag["method"], ", ".join(names))


HEADER = """(* GENERATED by /verif/translator/py2gallina_cf.py from the current /repo sources. Do not edit. *)
From Coq Require Import List Bool Arith.
From TEV Require Import Model.PyProg.
Import ListNotations.
"""


def main():
    repo, outdir = sys.argv[1], sys.argv[2]
    os.makedirs(outdir, exist_ok=True)
    rc = 0
    for frag in FRAGMENTS:
        short = frag["name"][4:]
        fn = "GenCF_%s.v" % short
        msg, frc = "translated %s %s.%s" % (frag["file"], frag["cls"], frag["method"]), 0
        try:
            text = HEADER + Translator(frag, repo).translate()
        except Unsupported as u:
            msg, frc = "UNSUPPORTED %s" % u, 2
            text = HEADER + "(* translation refused: %s *)\nDefinition translation_refused : False := I.\n" % str(u).replace("*)", "* )")
        except (SyntaxError, OSError) as e:
            msg, frc = "UNSUPPORTED cannot read sources: %s" % e, 2
            text = HEADER + "Definition translation_refused : False := I.\n"
        print(msg)
        rc = max(rc, frc)
        with open(os.path.join(outdir, "cf_%s.status" % short), "w") as f:
            f.write("%s\nexit %d\n" % (msg, frc))
        p = os.path.join(outdir, fn)
        if not os.path.exists(p) or open(p).read() != text:
            with open(p, "w") as f:
                f.write(text)
    return rc


if __name__ == "__main__":
    sys.exit(main())
