#!/usr/bin/env python3
"""py2gallina_guards: translate the guard functions of TE_Density - the functions whose only effect is to raise
when their inputs must be refused - into boolean Gallina functions (true = accepted).

usage: py2gallina_guards.py <repo> <outdir>     writes <outdir>/GenGuards.v and <outdir>/guards.status

  transposon/merge_data.py   MergeData._validate_chromosome / _validate_windows / _validate_gene_names
                             gen_validate_chromosome (mine theirs : option N), gen_validate_windows (.. : option (list Z)),
                             gen_validate_gene_names (.. : option (list N))      self.X -> mine, overlap.X -> theirs
  transposon/preprocess.py   PreProcessor._validate_split
                             gen_validate_split (genes tes : list N): a frame is read as its chromosome id
                             (frame["Chromosome"].unique()[0], str(..) the identity on identifiers)
  transposon/__init__.py     check_strand
                             gen_check_strand (strands : list N) with the codes '+' 0, '-' 1, '.' 2 (anything else >= 3)

Reading (trusted): `raise` anywhere makes the function return false, falling off the end true; if / elif / else;
`for a, b in zip(x, y): ...` and `for a in x: ...` whose body only assigns locals or raises; `x is None`, `==`, `!=`,
`not`, `and`, `or`, `len(x)`; `~S.isin(L).all()` / `S.isin(L).any()` on the Strand column; assignments whose value is
never used in a condition (message building) and logger calls are skipped.  Fail-closed: anything else aborts with exit
status 2 and the generated file does not type-check.
"""
import ast, os, sys


class Unsupported(Exception):
    pass


def fail(node, msg, fname):
    raise Unsupported("%s:%s: %s" % (fname, getattr(node, "lineno", "?"), msg))


def dotted(e):
    parts = []
    while isinstance(e, ast.Attribute):
        parts.append(e.attr)
        e = e.value
    if isinstance(e, ast.Name):
        parts.append(e.id)
        return ".".join(reversed(parts))
    return None


STRAND_CODE = {"+": 0, "-": 1, ".": 2}

TYPES = {"optN": "option N", "optLZ": "option (list Z)", "optLN": "option (list N)", "LN": "list N", "N": "N", "bool": "bool", "nat": "nat"}
EQB = {"optN": "opt_eqb N.eqb", "optLZ": "opt_eqb (list_eqb Z.eqb)", "optLN": "opt_eqb (list_eqb N.eqb)", "N": "N.eqb", "nat": "Nat.eqb",
       "LN": "list_eqb N.eqb"}


class G:
    def __init__(self, fname, fn, env, attrs):
        self.fname, self.fn, self.env, self.attrs = fname, fn, dict(env), attrs   # env: local -> (text, type); attrs: dotted -> (text, type)
        self.n = 0

    def fresh(self, p):
        self.n += 1
        return "%s%d" % (p, self.n)

    def used_in_conditions(self, name):
        for node in ast.walk(self.fn):
            tests = []
            if isinstance(node, (ast.If, ast.While)):
                tests.append(node.test)
            if isinstance(node, ast.For):
                tests.append(node.iter)
            for t in tests:
                for x in ast.walk(t):
                    if isinstance(x, ast.Name) and x.id == name:
                        return True
        return False

    def expr(self, e):
        f = self.fname
        if isinstance(e, ast.Name):
            if e.id in self.env:
                return self.env[e.id]
            fail(e, "unbound name %s" % e.id, f)
        d = dotted(e)
        if d in self.attrs:
            return self.attrs[d]
        if isinstance(e, ast.Constant) and e.value is None:
            return "None", "none"
        if isinstance(e, ast.Call) and isinstance(e.func, ast.Name) and e.func.id == "str" and len(e.args) == 1:
            return self.expr(e.args[0])
        if isinstance(e, ast.Call) and isinstance(e.func, ast.Name) and e.func.id == "len" and len(e.args) == 1:
            t, ty = self.expr(e.args[0])
            if ty == "LN":
                return "(length %s)" % t, "nat"
        # frame["Chromosome"].unique()[0]  (a frame is its chromosome id)
        if isinstance(e, ast.Subscript) and isinstance(e.slice, ast.Constant) and e.slice.value == 0 and isinstance(e.value, ast.Call) \
                and isinstance(e.value.func, ast.Attribute) and e.value.func.attr == "unique" and isinstance(e.value.func.value, ast.Subscript) \
                and isinstance(e.value.func.value.slice, ast.Constant) and e.value.func.value.slice.value == "Chromosome":
            t, ty = self.expr(e.value.func.value.value)
            if ty == "N":
                return t, "N"
        if isinstance(e, ast.Compare) and len(e.ops) == 1:
            op = e.ops[0]
            a, aty = self.expr(e.left)
            b, bty = self.expr(e.comparators[0])
            if isinstance(op, (ast.Is, ast.IsNot)) and bty == "none" and aty.startswith("opt"):
                t = "(is_none %s)" % a
                return (t if isinstance(op, ast.Is) else "(negb %s)" % t), "bool"
            if isinstance(op, (ast.Eq, ast.NotEq)) and aty == bty and aty in EQB:
                t = "(%s %s %s)" % (EQB[aty], a, b)
                return (t if isinstance(op, ast.Eq) else "(negb %s)" % t), "bool"
            fail(e, "comparison %s (%s, %s)" % (ast.unparse(e), aty, bty), f)
        if isinstance(e, ast.UnaryOp) and isinstance(e.op, (ast.Not, ast.Invert)):
            t, ty = self.expr(e.operand)
            if ty == "bool":
                return "(negb %s)" % t, "bool"
        if isinstance(e, ast.BoolOp):
            parts = [self.expr(v) for v in e.values]
            if all(p[1] == "bool" for p in parts):
                return "(" + (" && " if isinstance(e.op, ast.And) else " || ").join(p[0] for p in parts) + ")", "bool"
        # S.isin(L).all() / .any() on the strand column
        if isinstance(e, ast.Call) and isinstance(e.func, ast.Attribute) and e.func.attr in ("all", "any") and not e.args and not e.keywords:
            inner = e.func.value
            if isinstance(inner, ast.Call) and isinstance(inner.func, ast.Attribute) and inner.func.attr == "isin" and len(inner.args) == 1:
                col, cty = self.expr(inner.func.value)
                lst = self.strand_list(inner.args[0])
                if cty == "LN":
                    x = self.fresh("x")
                    q = "forallb" if e.func.attr == "all" else "existsb"
                    return "(%s (fun %s => existsb (N.eqb %s) %s) %s)" % (q, x, x, lst, col), "bool"
        fail(e, "expression %s" % ast.unparse(e)[:100], f)

    def strand_list(self, e):
        if isinstance(e, ast.Name) and e.id in self.env and self.env[e.id][1] == "strandlist":
            return self.env[e.id][0]
        if isinstance(e, ast.List) and all(isinstance(x, ast.Constant) and isinstance(x.value, str) for x in e.elts):
            codes = []
            for x in e.elts:
                if x.value not in STRAND_CODE:
                    fail(x, "strand symbol %r has no code" % x.value, self.fname)
                codes.append("%d%%N" % STRAND_CODE[x.value])
            return "[" + "; ".join(codes) + "]"
        fail(e, "list of strand symbols %s" % ast.unparse(e), self.fname)

    def is_log(self, st):
        if isinstance(st, ast.Expr) and isinstance(st.value, ast.Constant) and isinstance(st.value.value, str):
            return True
        if isinstance(st, ast.Expr) and isinstance(st.value, ast.Call):
            d = dotted(st.value.func) or ""
            if d.split(".")[-1] in ("debug", "info", "warning", "error", "critical") and "logger" in d:
                return True
        return False

    def only_logs(self, body):
        return all(self.is_log(st) or (isinstance(st, ast.Assign) and not any(self.used_in_conditions(t.id) for t in st.targets if isinstance(t, ast.Name)))
                   for st in body)

    def stmts(self, ss):
        """-> Gallina bool: true iff no raise is reached"""
        f = self.fname
        if not ss:
            return "true"
        st, rest = ss[0], ss[1:]
        if self.is_log(st):
            return self.stmts(rest)
        if isinstance(st, ast.Raise):
            return "false"
        if isinstance(st, ast.Return) and st.value is None:
            return "true"
        if isinstance(st, ast.Assign):
            if len(st.targets) == 1 and isinstance(st.targets[0], ast.Name):
                name = st.targets[0].id
                # a literal list of strand symbols
                if isinstance(st.value, ast.List) and st.value.elts and all(isinstance(x, ast.Constant) and isinstance(x.value, str) for x in st.value.elts):
                    self.env[name] = (self.strand_list(st.value), "strandlist")
                    return self.stmts(rest)
                if not self.used_in_conditions(name):
                    return self.stmts(rest)              # message building
                t, ty = self.expr(st.value)
                g = self.fresh("v_" + name)
                self.env[name] = (g, ty)
                return "(let %s := %s in %s)" % (g, t, self.stmts(rest))
            fail(st, "assignment", f)
        if isinstance(st, ast.If):
            if self.only_logs(st.body) and self.only_logs(st.orelse):
                # a branch that only logs: the condition must still be translatable unless it is log-only too
                return self.stmts(rest)
            c, cty = self.expr(st.test)
            if cty != "bool":
                fail(st, "condition of type %s" % cty, f)
            saved = dict(self.env)
            a = self.stmts(st.body + rest)
            self.env = dict(saved)
            b = self.stmts(st.orelse + rest)
            self.env = saved
            return "(if %s then %s else %s)" % (c, a, b)
        if isinstance(st, ast.For):
            if st.orelse:
                fail(st, "for/else", f)
            it = st.iter
            saved = dict(self.env)
            if isinstance(it, ast.Call) and isinstance(it.func, ast.Name) and it.func.id == "zip" and len(it.args) == 2 \
                    and isinstance(st.target, ast.Tuple) and len(st.target.elts) == 2:
                (a, aty), (b, bty) = self.expr(it.args[0]), self.expr(it.args[1])
                if aty != "LN" or bty != "LN":
                    fail(st, "zip of %s, %s" % (aty, bty), f)
                x, y = self.fresh("x"), self.fresh("y")
                self.env[st.target.elts[0].id] = (x, "N")
                self.env[st.target.elts[1].id] = (y, "N")
                body = self.stmts(list(st.body))
                self.env = saved
                return "(forallb2 (fun %s %s => %s) %s %s && %s)" % (x, y, body, a, b, self.stmts(rest))
            fail(st, "for loop shape", f)
        fail(st, "statement %s" % type(st).__name__, f)


def find_def(tree, cls, name, fname):
    body = tree.body
    if cls:
        cs = [n for n in tree.body if isinstance(n, ast.ClassDef) and n.name == cls]
        if not cs:
            fail(tree, "class %s not found" % cls, fname)
        body = cs[0].body
    for n in body:
        if isinstance(n, ast.FunctionDef) and n.name == name:
            return n
    fail(tree, "function %s not found" % name, fname)


def translate(repo):
    defs = []
    fname = "transposon/merge_data.py"
    tree = ast.parse(open(os.path.join(repo, fname)).read())
    for name, attr, ty in (("_validate_chromosome", "chromosome_id", "optN"), ("_validate_windows", "windows", "optLZ"),
                           ("_validate_gene_names", "gene_names", "optLN")):
        fn = find_def(tree, "MergeData", name, fname)
        if [a.arg for a in fn.args.args] != ["self", "overlap"]:
            fail(fn, "parameters of %s" % name, fname)
        g = G(fname, fn, {}, {"self." + attr: ("mine", ty), "overlap." + attr: ("theirs", ty)})
        defs.append("Definition gen%s (mine theirs : %s) : bool :=\n  %s." % (name, TYPES[ty], g.stmts(fn.body)))
    # the three guards are called by MergeData.sum before anything is summed
    fn = find_def(tree, "MergeData", "sum", fname)
    calls = [dotted(st.value.func) for st in fn.body if isinstance(st, ast.Expr) and isinstance(st.value, ast.Call)]
    first_other = next((i for i, st in enumerate(fn.body) if not (isinstance(st, ast.Expr) and (isinstance(st.value, ast.Constant) or
                        (isinstance(st.value, ast.Call) and (dotted(st.value.func) or "").startswith("self._validate_"))))), len(fn.body))
    head = [dotted(st.value.func) for st in fn.body[:first_other] if isinstance(st, ast.Expr) and isinstance(st.value, ast.Call)]
    for need in ("self._validate_chromosome", "self._validate_windows", "self._validate_gene_names"):
        if need not in head:
            fail(fn, "MergeData.sum does not call %s(overlap) before it starts summing (calls: %s)" % (need, calls), fname)
    for st in fn.body[:first_other]:
        if isinstance(st.value, ast.Call) and [ast.unparse(a) for a in st.value.args] != ["overlap"]:
            fail(st, "guard not applied to the overlap argument", fname)

    fname = "transposon/preprocess.py"
    tree = ast.parse(open(os.path.join(repo, fname)).read())
    fn = find_def(tree, "PreProcessor", "_validate_split", fname)
    if [a.arg for a in fn.args.args] != ["self", "gene_frames", "te_frames"]:
        fail(fn, "parameters of _validate_split", fname)
    g = G(fname, fn, {"gene_frames": ("genes", "LN"), "te_frames": ("tes", "LN")}, {})
    defs.append("Definition gen_validate_split (genes tes : list N) : bool :=\n  %s." % g.stmts(fn.body))

    fname = "transposon/__init__.py"
    tree = ast.parse(open(os.path.join(repo, fname)).read())
    fn = find_def(tree, None, "check_strand", fname)
    if [a.arg for a in fn.args.args] != ["my_df", "logger"]:
        fail(fn, "parameters of check_strand", fname)
    g = G(fname, fn, {}, {})
    # my_df["Strand"] is the list of strand codes
    orig = g.expr

    def expr(e):
        if isinstance(e, ast.Subscript) and isinstance(e.value, ast.Name) and e.value.id == "my_df" and isinstance(e.slice, ast.Constant) \
                and e.slice.value == "Strand":
            return "strands", "LN"
        return orig(e)
    g.expr = expr
    defs.append("Definition gen_check_strand (strands : list N) : bool :=\n  %s." % g.stmts(fn.body))
    # the gene import calls it, and makes the gene names the index with the uniqueness check on
    fname = "transposon/import_filtered_genes.py"
    tree = ast.parse(open(os.path.join(repo, fname)).read())
    fn = find_def(tree, None, "import_filtered_genes", fname)
    src = [ast.unparse(st) for st in fn.body]
    if not any(s.replace(" ", "") == "check_strand(gene_data,logger)" for s in src):
        fail(fn, "import_filtered_genes does not call check_strand(gene_data, logger)", fname)
    ok = False
    for st in fn.body:
        if isinstance(st, ast.Expr) and isinstance(st.value, ast.Call) and dotted(st.value.func) == "gene_data.set_index":
            kws = {k.arg: k.value for k in st.value.keywords}
            if len(st.value.args) == 1 and isinstance(st.value.args[0], ast.Constant) and st.value.args[0].value == "Gene_Name" \
                    and isinstance(kws.get("verify_integrity"), ast.Constant) and kws["verify_integrity"].value is True:
                ok = True
    if not ok:
        fail(fn, "import_filtered_genes does not index by Gene_Name with verify_integrity=True", fname)
    # the TE import refuses a file without one of the columns the results depend on: `missing = [c for c in (<names>) if c not in
    # <frame>.columns]` followed, before anything is returned, by `if missing: ... raise`
    fname = "transposon/import_filtered_TEs.py"
    tree = ast.parse(open(os.path.join(repo, fname)).read())
    fn = find_def(tree, None, "import_filtered_TEs", fname)
    TCODE = {"Chromosome": 0, "Start": 1, "Stop": 2, "Order": 3, "SuperFamily": 4, "Strand": 5, "Length": 6}
    frames = [ast.unparse(st.targets[0]) for st in ast.walk(fn) if isinstance(st, ast.Assign) and len(st.targets) == 1 and
              isinstance(st.value, ast.Call) and dotted(st.value.func) in ("pd.read_csv", "pandas.read_csv")]
    req, mname, pos = None, None, None
    for i, st in enumerate(fn.body):
        if isinstance(st, ast.Assign) and len(st.targets) == 1 and isinstance(st.targets[0], ast.Name) and isinstance(st.value, ast.ListComp):
            lc = st.value
            if len(lc.generators) == 1 and isinstance(lc.generators[0].target, ast.Name) and isinstance(lc.elt, ast.Name) and \
                    lc.elt.id == lc.generators[0].target.id and isinstance(lc.generators[0].iter, (ast.Tuple, ast.List)) and \
                    all(isinstance(x, ast.Constant) and isinstance(x.value, str) for x in lc.generators[0].iter.elts) and len(lc.generators[0].ifs) == 1:
                t = lc.generators[0].ifs[0]
                if isinstance(t, ast.Compare) and len(t.ops) == 1 and isinstance(t.ops[0], ast.NotIn) and isinstance(t.left, ast.Name) and \
                        t.left.id == lc.elt.id and isinstance(t.comparators[0], ast.Attribute) and t.comparators[0].attr == "columns" and \
                        ast.unparse(t.comparators[0].value) in frames:
                    req, mname, pos = [x.value for x in lc.generators[0].iter.elts], st.targets[0].id, i
    if req is None:
        fail(fn, "import_filtered_TEs does not collect the required columns that the file lacks", fname)
    refused = False
    for st in fn.body[pos + 1:]:
        if isinstance(st, ast.Return):
            break
        if isinstance(st, ast.Assign) and any(isinstance(t, ast.Name) and t.id == mname for t in st.targets):
            break
        if isinstance(st, ast.If) and ((isinstance(st.test, ast.Name) and st.test.id == mname) or ast.unparse(st.test).replace(" ", "") in
                                       ("len(%s)>0" % mname, "len(%s)!=0" % mname, "%s!=[]" % mname, "len(%s)" % mname)) and \
                st.body and isinstance(st.body[-1], ast.Raise) and all(isinstance(x, (ast.Assign, ast.Expr, ast.Raise)) for x in st.body):
            refused = True
            break
    if not refused:
        fail(fn, "import_filtered_TEs does not raise when a required column is missing", fname)
    codes = [TCODE.get(c, 100 + i) for i, c in enumerate(req)]
    defs.append("(* import_filtered_TEs: the columns without which the file is refused (%s) *)" % ", ".join(req))
    defs.append("Definition gen_te_required_columns : list N := [%s]%%N." % "; ".join(str(c) for c in codes))
    defs.append("Definition gen_te_columns_accepted (header : list N) : bool :=\n  forallb (fun c => existsb (N.eqb c) header) gen_te_required_columns.")
    return defs


HEADER = """(* GENERATED by /verif/translator/py2gallina_guards.py from the current /repo sources. Do not edit. *)
From Coq Require Import ZArith NArith List Bool.
From TEV Require Import Model.Guards.
Import ListNotations.
"""


def main():
    repo, outdir = sys.argv[1], sys.argv[2]
    os.makedirs(outdir, exist_ok=True)
    msg, rc = "translated the guards of merge_data.py, preprocess.py, __init__.py", 0
    try:
        text = HEADER + "\n".join(translate(repo)) + "\n"
    except Unsupported as u:
        msg, rc = "UNSUPPORTED %s" % u, 2
        text = HEADER + "(* translation refused: %s *)\nDefinition translation_refused : False := I.\n" % str(u).replace("*)", "* )")
    except (SyntaxError, OSError) as e:
        msg, rc = "UNSUPPORTED cannot read sources: %s" % e, 2
        text = HEADER + "Definition translation_refused : False := I.\n"
    print(msg)
    with open(os.path.join(outdir, "guards.status"), "w") as f:
        f.write("%s\nexit %d\n" % (msg, rc))
    p = os.path.join(outdir, "GenGuards.v")
    if not os.path.exists(p) or open(p).read() != text:
        with open(p, "w") as f:
            f.write(text)
    return rc


if __name__ == "__main__":
    sys.exit(main())
