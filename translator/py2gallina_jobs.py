#!/usr/bin/env python3
"""py2gallina_jobs: follow the three file names of a chromosome - gene cache, TE cache, overlap file - through the job and
result tuples of TE_Density, from the overlap job to what the density stage reads:

    overlap_manager.OverlapManager._overlap_job          (gene_path, te_path, filepath) -> _OverlapJob fields
    overlap_manager._calculate_overlap_job               which files it reads and writes; OverlapResult fields
    overlap_manager.OverlapManager._completed_job_2_result   OverlapResult fields of a reused overlap file
    process_genome.result_to_job                         OverlapResult -> MergeJob (positional arguments against the field order)
    process_genome.job_2_merge_and_overlap, calc_merge   which file every reader of the density stage opens

usage: py2gallina_jobs.py <repo> <outdir>     writes <outdir>/GenJobs.v and <outdir>/jobs.status

Each of the three names is a symbolic value (FGene, FTE, FOverlap of the overlap job); a namedtuple construction binds
fields to values (keywords by name, positional arguments by the field order of the namedtuple definition); `str(x)` of a
name is the name; an attribute read gives the field's value.  The translator emits, for every tuple and every reader,
which of the three symbolic names it holds / opens.  Fail-closed: a field bound to anything else, a reader opening
anything else, aborts with exit status 2 and the generated file does not type-check.
"""
import ast, os, sys


class Unsupported(Exception):
    pass


def fail(node, msg, fname):
    raise Unsupported("%s:%s: %s" % (fname, getattr(node, "lineno", "?"), msg))


def U(e):
    return ast.unparse(e).replace(" ", "").replace("\n", "")


def namedtuples(tree, fname):
    out = {}
    for st in ast.walk(tree):
        if isinstance(st, ast.Assign) and len(st.targets) == 1 and isinstance(st.value, ast.Call) and U(st.value.func) == "namedtuple" \
                and len(st.value.args) == 2 and isinstance(st.value.args[1], ast.List):
            out[U(st.targets[0])] = [x.value for x in st.value.args[1].elts]
    return out


def fields_of_call(call, fields, fname):
    """field -> unparsed argument, positional arguments by field order"""
    got = {}
    if len(call.args) > len(fields):
        fail(call, "too many positional arguments", fname)
    for f, a in zip(fields, call.args):
        got[f] = U(a)
    for k in call.keywords:
        if k.arg in got or k.arg not in fields:
            fail(call, "keyword %s" % k.arg, fname)
        got[k.arg] = U(k.value)
    return got


def unstr(x):
    while x.startswith("str(") and x.endswith(")"):
        x = x[4:-1]
    return x


def find_fn(tree, name, fname, cls=None):
    scope = tree.body
    if cls:
        cs = [n for n in tree.body if isinstance(n, ast.ClassDef) and n.name == cls]
        if not cs:
            fail(tree, "class %s not found" % cls, fname)
        scope = cs[0].body
    for n in scope:
        if isinstance(n, ast.FunctionDef) and n.name == name:
            return n
    fail(tree, "function %s not found" % name, fname)


def translate(repo):
    om = "transposon/overlap_manager.py"
    pg = "process_genome.py"
    omt = ast.parse(open(os.path.join(repo, om)).read())
    pgt = ast.parse(open(os.path.join(repo, pg)).read())
    nts = namedtuples(omt, om)
    nts.update(namedtuples(pgt, pg))
    nts.update(namedtuples(ast.parse(open(os.path.join(repo, "transposon/overlap.py")).read()), "transposon/overlap.py"))
    for need in ("_OverlapJob", "OverlapResult", "MergeJob"):
        if need not in nts:
            fail(omt, "namedtuple %s not found" % need, om)

    # 1. the overlap job
    fn = find_fn(omt, "_overlap_job", om, "OverlapManager")
    params = [a.arg for a in fn.args.args][1:]
    if params != ["gene_data", "gene_path", "te_path", "filepath"]:
        fail(fn, "parameters of _overlap_job: %s" % params, om)
    calls = [c for c in ast.walk(fn) if isinstance(c, ast.Call) and U(c.func) == "_OverlapJob"]
    if len(calls) != 1:
        fail(fn, "_overlap_job does not build one _OverlapJob", om)
    f = fields_of_call(calls[0], nts["_OverlapJob"], om)
    if f.get("gene_path") != "gene_path" or f.get("te_path") != "te_path" or f.get("output_filepath") != "filepath":
        fail(calls[0], "_OverlapJob fields: gene_path=%s te_path=%s output_filepath=%s" % (f.get("gene_path"), f.get("te_path"), f.get("output_filepath")), om)
    # who calls _overlap_job: the gene container is read from the gene path, the file name is made from that container
    yj = [n for n in ast.walk(omt) if isinstance(n, ast.FunctionDef) and any(isinstance(c, ast.Call) and U(c.func) == "self._overlap_job" for c in ast.walk(n))]
    if len(yj) != 1:
        fail(omt, "_overlap_job is not called from exactly one method", om)
    ycall = [c for c in ast.walk(yj[0]) if isinstance(c, ast.Call) and U(c.func) == "self._overlap_job"][0]
    yargs = [U(a) for a in ycall.args]
    assigns = {U(st.targets[0]): U(st.value) for st in ast.walk(yj[0]) if isinstance(st, ast.Assign) and len(st.targets) == 1}
    loops = [n for n in ast.walk(yj[0]) if isinstance(n, ast.For) and isinstance(n.target, ast.Tuple) and len(n.target.elts) == 2]
    if len(yargs) != 4 or not loops:
        fail(yj[0], "call of _overlap_job", om)
    gp, tp = U(loops[0].target.elts[0]), U(loops[0].target.elts[1])
    if yargs[1] != gp or yargs[2] != tp or assigns.get(yargs[0]) != "GeneData.read(%s)" % gp or assigns.get(yargs[3]) != "self._overlap_filepath(%s)" % yargs[0]:
        fail(ycall, "the job of a (gene path, TE path) pair is not built from that pair: %s" % yargs, om)

    # 2. the calculation: reads and result
    fn = find_fn(omt, "_calculate_overlap_job", om)
    assigns = {U(st.targets[0]): U(st.value) for st in fn.body if isinstance(st, ast.Assign) and len(st.targets) == 1}
    reads = sorted(v for v in assigns.values() if v.startswith(("GeneData.read(", "TransposonData.read(")))
    if reads != ["GeneData.read(job.gene_path)", "TransposonData.read(job.te_path)"]:
        fail(fn, "_calculate_overlap_job reads %s" % reads, om)
    calls = [c for c in ast.walk(fn) if isinstance(c, ast.Call) and U(c.func) == "OverlapResult"]
    if len(calls) != 1:
        fail(fn, "_calculate_overlap_job does not build one OverlapResult", om)
    r1 = fields_of_call(calls[0], nts["OverlapResult"], om)
    # 3. a reused overlap file
    fn = find_fn(omt, "_completed_job_2_result", om, "OverlapManager")
    calls = [c for c in ast.walk(fn) if isinstance(c, ast.Call) and U(c.func) == "OverlapResult"]
    if len(calls) != 1:
        fail(fn, "_completed_job_2_result does not build one OverlapResult", om)
    r2 = fields_of_call(calls[0], nts["OverlapResult"], om)
    sym = {"job.gene_path": "FGene", "job.te_path": "FTE", "job.output_filepath": "FOverlap"}
    for r, where in ((r1, "_calculate_overlap_job"), (r2, "_completed_job_2_result")):
        for k in ("overlap_file", "gene_file", "te_file"):
            if unstr(r.get(k, "")) not in sym:
                fail(fn, "%s: OverlapResult.%s = %s" % (where, k, r.get(k)), om)

    # 4. result -> merge job
    fn = find_fn(pgt, "result_to_job", pg)
    p0 = [a.arg for a in fn.args.args][0]
    calls = [c for c in ast.walk(fn) if isinstance(c, ast.Call) and U(c.func) == "MergeJob"]
    if len(calls) != 1:
        fail(fn, "result_to_job does not build one MergeJob", pg)
    mj = fields_of_call(calls[0], nts["MergeJob"], pg)
    rsym = {"%s.overlap_file" % p0: "overlap_file", "%s.gene_file" % p0: "gene_file", "%s.te_file" % p0: "te_file"}
    for k in ("overlap_file", "gene_file", "te_file"):
        if unstr(mj.get(k, "")) not in rsym:
            fail(calls[0], "MergeJob.%s = %s" % (k, mj.get(k)), pg)
    # the list of merge jobs: one per overlap result
    main_src = U(pgt)
    if "[result_to_job(res,win,args.output_dir,pbar_update)forresinoverlap_results]" not in main_src or "overlap_results=overlap_mgr.calculate_overlap()" not in main_src:
        fail(pgt, "the merge jobs are not `[result_to_job(res, ...) for res in overlap_results]` of calculate_overlap()", pg)

    # 5. the readers of the density stage
    fn = find_fn(pgt, "job_2_merge_and_overlap", pg)
    assigns = {U(st.targets[0]): U(st.value) for st in fn.body if isinstance(st, ast.Assign) and len(st.targets) == 1}
    inv = {v: k for k, v in assigns.items()}
    need = {"TransposonData.read(job.te_file)": "tes", "GeneData.read(job.gene_file)": "genes", "OverlapData.from_file(job.overlap_file)": "ovl"}
    for k in need:
        if k not in inv:
            fail(fn, "job_2_merge_and_overlap does not do %s" % k, pg)
    mp = [v for v in assigns.values() if v.startswith("MergeData.from_param(")]
    if mp != ["MergeData.from_param(%s,%s,windows,output_dir)" % (inv["TransposonData.read(job.te_file)"], inv["GeneData.read(job.gene_file)"])]:
        fail(fn, "MergeData.from_param arguments: %s" % mp, pg)
    others = [v for v in assigns.values() if ".read(" in v or ".from_file(" in v]
    if sorted(others) != sorted(need):
        fail(fn, "job_2_merge_and_overlap reads %s" % others, pg)
    fn = find_fn(pgt, "calc_merge", pg)
    assigns = {U(st.targets[0]): U(st.value) for st in fn.body if isinstance(st, ast.Assign) and len(st.targets) == 1}
    gd = [k for k, v in assigns.items() if v == "GeneData.read(job.gene_file)"]
    sums = [c for c in ast.walk(fn) if isinstance(c, ast.Call) and isinstance(c.func, ast.Attribute) and c.func.attr == "sum"]
    if len(gd) != 1 or len(sums) != 1 or U(sums[0].args[1]) != gd[0] or "merge_data,overlap_data=job_2_merge_and_overlap(job)" not in U(fn):
        fail(fn, "calc_merge does not sum with the GeneData of job.gene_file over the pair of job_2_merge_and_overlap(job)", pg)

    def res(r, k):
        return sym[unstr(r[k])]
    def mjf(k):
        return "r_" + rsym[unstr(mj[k])].replace("_file", "")
    out = []
    out.append("Definition gen_result_calculated : oresult := mkRes %s %s %s." % (res(r1, "overlap_file"), res(r1, "gene_file"), res(r1, "te_file")))
    out.append("Definition gen_result_completed : oresult := mkRes %s %s %s." % (res(r2, "overlap_file"), res(r2, "gene_file"), res(r2, "te_file")))
    out.append("Definition gen_merge_job (r : oresult) : mjob := mkMJ (%s r) (%s r) (%s r)." % (mjf("overlap_file"), mjf("gene_file"), mjf("te_file")))
    out.append("(* what the density stage opens for a merge job: TransposonData, GeneData (twice: layout and divisors), OverlapData *)")
    out.append("Definition gen_merge_reads (m : mjob) : fname * fname * fname * fname := (m_te m, m_gene m, m_gene m, m_overlap m).")
    out.append("(* what the overlap calculation opens and writes *)")
    out.append("Definition gen_overlap_reads : fname * fname := (FTE, FGene).")
    out.append("Definition gen_overlap_writes : fname := FOverlap.")
    return out


HEADER = """(* GENERATED by /verif/translator/py2gallina_jobs.py from the current /repo sources. Do not edit. *)
From Coq Require Import List.
From TEV Require Import Model.Jobs.
Import ListNotations.
"""


def main():
    repo, outdir = sys.argv[1], sys.argv[2]
    os.makedirs(outdir, exist_ok=True)
    msg, rc = "translated the file names carried by _OverlapJob, OverlapResult and MergeJob and opened by the density stage", 0
    try:
        text = HEADER + "\n".join(translate(repo)) + "\n"
    except Unsupported as u:
        msg, rc = "UNSUPPORTED %s" % u, 2
        text = HEADER + "(* translation refused: %s *)\nDefinition translation_refused : False := I.\n" % str(u).replace("*)", "* )")
    except (SyntaxError, OSError, KeyError, IndexError, AttributeError, TypeError, ValueError) as e:
        msg, rc = "UNSUPPORTED cannot read sources: %s: %s" % (type(e).__name__, e), 2
        text = HEADER + "Definition translation_refused : False := I.\n"
    print(msg)
    with open(os.path.join(outdir, "jobs.status"), "w") as f:
        f.write("%s\nexit %d\n" % (msg, rc))
    p = os.path.join(outdir, "GenJobs.v")
    if not os.path.exists(p) or open(p).read() != text:
        with open(p, "w") as f:
            f.write(text)
    return rc


if __name__ == "__main__":
    sys.exit(main())
