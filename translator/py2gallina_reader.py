#!/usr/bin/env python3
"""py2gallina_reader: translate the loading protocol of transposon/density_data.py - DensityData.__init__ (which file is
opened, how the sense-swapped copy is produced and published), DensityData._swap_strand_vals, DensityData._index_of_gene
and DensityData.verify_h5_cache - into Gallina functions over Model/ReaderFS.v.

usage: py2gallina_reader.py <repo> <outdir>     writes <outdir>/GenReader.v and <outdir>/reader.status

File names are symbolic: input_h5 is PRaw; `input_h5.replace(".h5", "_SenseSwapped.HDF5")` is PFinal (the name later loads
trust); `<PFinal> + ".tmp"` is PTmp.  Any other way of deriving a file name is refused (whether another expression names
the same files is exactly what cannot be seen without a model of strings).
Statements with an effect on the file system are read through this table (trusted):
    os.path.exists(p)              exists_ p d
    shutil.copyfile(a, b)          d := copy_ a b d
    self.data_frame = h5py.File(p, "r" | "r+")     the handle now names p (what later reads of self.data_frame see)
    self._swap_strand_vals(names)  the file the handle names is replaced by gen_swap_strand_vals names of it; IndexError -> raise
    self.data_frame.close()        nothing (the handle is re-bound before the next read)
    os.replace(a, b)               d := replace_ a b d
    raise ...                      the constructor fails: (d, None)
The minus-strand gene names are recognised as the data flow
    np.where(gene_data.data_frame.Strand.to_numpy(..) == "-", 0, 1)  ->  np.where(<that> == 0)[0]  ->
    gene_data.data_frame.iloc[<those>, :].index.tolist()             =   minus_names genes
Every other statement of __init__ must be free of effects (no call on os / shutil / h5py, no close / replace / copy, no
store through self.data_frame[...]) and is skipped: it only derives attributes from the opened file.
_swap_strand_vals: `for name in gene_names`, index by _index_of_gene (first position in GENE_NAMES, IndexError when
absent), and for BOTH levels the simultaneous exchange of [:, :, index] between RHO_<LEVEL>_LEFT and RHO_<LEVEL>_RIGHT.
Fail-closed: anything else aborts with exit status 2 and the generated file does not type-check.
"""
import ast, os, sys

FNAME = "transposon/density_data.py"


class Unsupported(Exception):
    pass


def fail(node, msg):
    raise Unsupported("%s:%s: %s" % (FNAME, getattr(node, "lineno", "?"), msg))


def dotted(e):
    parts = []
    while isinstance(e, ast.Attribute):
        parts.append(e.attr)
        e = e.value
    if isinstance(e, ast.Name):
        parts.append(e.id)
        return ".".join(reversed(parts))
    return None


EFFECT_CALLS = ("os.", "shutil.", "h5py.")
EFFECT_ATTRS = ("close", "replace", "copyfile", "remove", "unlink", "rename", "flush", "create_dataset", "require_dataset")


def has_effect(node):
    for x in ast.walk(node):
        if isinstance(x, ast.Call):
            d = dotted(x.func) or ""
            if d.startswith(EFFECT_CALLS) or d.split(".")[-1] in EFFECT_ATTRS or d.startswith("self._swap") or d == "open":
                return True
        if isinstance(x, (ast.Subscript,)) and isinstance(x.ctx, ast.Store) and "data_frame" in ast.unparse(x):
            return True
    return False


class Init:
    def __init__(self, fn):
        self.fn = fn
        self.paths = {"input_h5": "PRaw"}     # python variable -> symbolic path
        self.kinds = {}                       # python variable -> "strand01" | "minus_idx" | "minus_names"
        self.n = 0

    def path(self, e):
        if isinstance(e, ast.Name) and e.id in self.paths:
            return self.paths[e.id]
        fail(e, "file name %s is not input_h5, the sense-swapped name derived from it, or its temporary name" % ast.unparse(e))

    def path_expr(self, e):
        """symbolic value of a string expression that derives a file name, or None"""
        # input_h5.replace(".h5", "_SenseSwapped.HDF5")
        if isinstance(e, ast.Call) and isinstance(e.func, ast.Attribute) and e.func.attr == "replace" and isinstance(e.func.value, ast.Name) \
                and e.func.value.id in self.paths and len(e.args) == 2 and all(isinstance(a, ast.Constant) for a in e.args):
            if self.paths[e.func.value.id] == "PRaw" and e.args[0].value == ".h5" and e.args[1].value == "_SenseSwapped.HDF5":
                return "PFinal"
            fail(e, "derived file name %s" % ast.unparse(e))
        if isinstance(e, ast.BinOp) and isinstance(e.op, ast.Add) and isinstance(e.left, ast.Name) and e.left.id in self.paths \
                and isinstance(e.right, ast.Constant) and isinstance(e.right.value, str):
            if self.paths[e.left.id] == "PFinal" and e.right.value == ".tmp":
                return "PTmp"
            fail(e, "derived file name %s" % ast.unparse(e))
        # any other string expression over a path variable is a file name we cannot interpret
        for x in ast.walk(e):
            if isinstance(x, ast.Name) and x.id in self.paths:
                fail(e, "derived file name %s" % ast.unparse(e))
        return None

    def strand_kind(self, e):
        u = ast.unparse(e).replace(" ", "").replace("'", '"')
        if u.startswith("np.where(gene_data.data_frame.Strand.to_numpy(") and u.endswith(')=="-",0,1)'):
            return "strand01"
        for v, k in self.kinds.items():
            if k == "strand01" and u == "np.where(%s==0)[0]" % v:
                return "minus_idx"
            if k == "minus_idx" and u in ("gene_data.data_frame.iloc[%s,:].index.tolist()" % v, "gene_data.data_frame.iloc[%s].index.tolist()" % v):
                return "minus_names"
        return None

    def stmts(self, ss, after):
        """-> Gallina term of type disk * option h5, in the scope of variables d : disk and h : path"""
        if not ss:
            return after()
        st, rest = ss[0], ss[1:]
        cont = lambda: self.stmts(rest, after)
        if isinstance(st, ast.Expr) and isinstance(st.value, ast.Constant):
            return cont()
        if isinstance(st, ast.Raise):
            return "(d, None)"
        if isinstance(st, ast.If):
            t = st.test
            if isinstance(t, ast.Name) and t.id == "sense_swap":
                c = "sense_swap"
            elif isinstance(t, ast.Call) and dotted(t.func) == "os.path.exists" and len(t.args) == 1:
                c = "(exists_ %s d)" % self.path(t.args[0])
            elif not has_effect(st):
                # a check on what was read (e.g. more than one chromosome id in the file): may only raise or log
                return cont()
            else:
                fail(st, "condition %s" % ast.unparse(t))
            saved = (dict(self.paths), dict(self.kinds))
            a = self.stmts(st.body + rest, after)
            self.paths, self.kinds = dict(saved[0]), dict(saved[1])
            b = self.stmts(st.orelse + rest, after)
            self.paths, self.kinds = saved
            return "(if %s then %s else %s)" % (c, a, b)
        if isinstance(st, ast.Assign) and len(st.targets) == 1:
            tgt, val = st.targets[0], st.value
            # self.data_frame = h5py.File(p, mode)
            if dotted(tgt) == "self.data_frame":
                if isinstance(val, ast.Call) and dotted(val.func) == "h5py.File" and len(val.args) == 2 and not val.keywords \
                        and isinstance(val.args[1], ast.Constant) and val.args[1].value in ("r", "r+"):
                    return "(let h := %s in %s)" % (self.path(val.args[0]), cont())
                fail(st, "self.data_frame := %s" % ast.unparse(val))
            if isinstance(tgt, ast.Name):
                p = self.path_expr(val)
                if p is not None:
                    self.paths[tgt.id] = p
                    return cont()
                k = self.strand_kind(val)
                if k is not None:
                    self.kinds[tgt.id] = k
                    return cont()
            if has_effect(st):
                fail(st, "statement with an effect on files: %s" % ast.unparse(st)[:100])
            return cont()
        if isinstance(st, ast.Expr) and isinstance(st.value, ast.Call):
            call = st.value
            d = dotted(call.func) or ""
            if d == "shutil.copyfile" and len(call.args) == 2 and not call.keywords:
                return "(let d := copy_ %s %s d in %s)" % (self.path(call.args[0]), self.path(call.args[1]), cont())
            if d == "os.replace" and len(call.args) == 2 and not call.keywords:
                return "(let d := replace_ %s %s d in %s)" % (self.path(call.args[0]), self.path(call.args[1]), cont())
            if d == "self.data_frame.close" and not call.args:
                return cont()
            if d == "self._swap_strand_vals" and len(call.args) == 1 and isinstance(call.args[0], ast.Name) \
                    and self.kinds.get(call.args[0].id) == "minus_names":
                return ("(match read_ h d with None => (d, None) | Some f_ => match gen_swap_strand_vals (minus_names genes) f_ with "
                        "(f', true) => let d := write_ h f' d in %s | (f', false) => (write_ h f' d, None) end end)" % cont())
            if d.split(".")[-1] in ("info", "debug", "warning", "error", "critical") and "logger" in d:
                return cont()
            if has_effect(st):
                fail(st, "call with an effect on files: %s" % ast.unparse(st)[:100])
            return cont()
        if has_effect(st):
            fail(st, "statement with an effect on files: %s" % ast.unparse(st)[:100])
        return cont()


def translate_swap(cls):
    fn = [n for n in cls.body if isinstance(n, ast.FunctionDef) and n.name == "_swap_strand_vals"]
    if not fn or [a.arg for a in fn[0].args.args] != ["self", "gene_names"]:
        fail(cls, "_swap_strand_vals(self, gene_names) not found")
    fn = fn[0]
    body = [s for s in fn.body if not (isinstance(s, ast.Expr) and isinstance(s.value, ast.Constant))]
    if len(body) != 1 or not isinstance(body[0], ast.For) or body[0].orelse or ast.unparse(body[0].iter) != "gene_names" or not isinstance(body[0].target, ast.Name):
        fail(fn, "_swap_strand_vals is not one loop over gene_names")
    loop = body[0]
    name = loop.target.id
    idx = None
    levels = set()
    for st in loop.body:
        if isinstance(st, ast.Assign) and len(st.targets) == 1 and isinstance(st.targets[0], ast.Name) and isinstance(st.value, ast.Call) \
                and dotted(st.value.func) == "self._index_of_gene" and [ast.unparse(a) for a in st.value.args] == [name]:
            idx = st.targets[0].id
            continue
        if isinstance(st, ast.Assign) and len(st.targets) == 1 and isinstance(st.targets[0], ast.Tuple) and isinstance(st.value, ast.Tuple) \
                and len(st.targets[0].elts) == 2 and len(st.value.elts) == 2 and idx is not None:
            def sl(e):
                u = ast.unparse(e).replace(" ", "").replace("'", '"')
                for lvl in ("SUPERFAMILIES", "ORDERS"):
                    for side in ("LEFT", "RIGHT"):
                        if u == 'self.data_frame["RHO_%s_%s"][:,:,%s]' % (lvl, side, idx):
                            return lvl, side
                fail(e, "exchange operand %s" % ast.unparse(e))
            (l1, s1), (l2, s2) = sl(st.targets[0].elts[0]), sl(st.targets[0].elts[1])
            (l3, s3), (l4, s4) = sl(st.value.elts[0]), sl(st.value.elts[1])
            if not (l1 == l2 == l3 == l4 and {s1, s2} == {"LEFT", "RIGHT"} and s3 == s2 and s4 == s1):
                fail(st, "not an exchange of left and right of one level: %s" % ast.unparse(st)[:120])
            if l1 in levels:
                fail(st, "level %s exchanged twice" % l1)
            levels.add(l1)
            continue
        fail(st, "statement in the exchange loop: %s" % ast.unparse(st)[:100])
    if levels != {"SUPERFAMILIES", "ORDERS"}:
        fail(fn, "the exchange loop covers levels %s, not both" % sorted(levels))
    # _index_of_gene: membership test raising IndexError, then list.index
    ig = [n for n in cls.body if isinstance(n, ast.FunctionDef) and n.name == "_index_of_gene"]
    if not ig:
        fail(cls, "_index_of_gene not found")
    ig = ig[0]
    b = [s for s in ig.body if not (isinstance(s, ast.Expr) and isinstance(s.value, ast.Constant))]
    arg = ig.args.args[1].arg if len(ig.args.args) == 2 else None
    ok = (len(b) == 2 and isinstance(b[0], ast.If) and ast.unparse(b[0].test).replace(" ", "") == "%snotinself.gene_list" % arg
          and len(b[0].body) == 1 and isinstance(b[0].body[0], ast.Raise) and not b[0].orelse
          and isinstance(b[1], ast.Return) and ast.unparse(b[1].value).replace(" ", "") == "self.gene_list.index(%s)" % arg)
    if not ok:
        fail(ig, "_index_of_gene is not `if name not in self.gene_list: raise ...; return self.gene_list.index(name)`")
    return ("(* for name in gene_names: index = first position of name in GENE_NAMES (IndexError when absent); both levels' left and right\n"
            "   columns at that index exchanged. Returns the file and whether every name was found (false = IndexError raised) *)\n"
            "Definition gen_swap_strand_vals (gene_names : list N) (f : h5) : h5 * bool :=\n"
            "  fold_left (fun (acc : h5 * bool) (name : N) => let '(f, ok) := acc in if ok then match first_index name (map fst f) with\n"
            "                                                         | Some k => (swap_at k f, true) | None => (f, false) end else acc)\n"
            "            gene_names (f, true).\n")


def translate(repo):
    tree = ast.parse(open(os.path.join(repo, FNAME)).read())
    cls = [n for n in tree.body if isinstance(n, ast.ClassDef) and n.name == "DensityData"]
    if not cls:
        fail(tree, "class DensityData not found")
    cls = cls[0]
    out = translate_swap(cls)
    init = [n for n in cls.body if isinstance(n, ast.FunctionDef) and n.name == "__init__"][0]
    if [a.arg for a in init.args.args] != ["self", "input_h5", "gene_data", "logger", "sense_swap"] or len(init.args.defaults) != 1 \
            or not (isinstance(init.args.defaults[0], ast.Constant) and init.args.defaults[0].value is True):
        fail(init, "signature of DensityData.__init__")
    body = Init(init).stmts(init.body, lambda: "(d, read_ h d)")
    out += ("Definition gen_init (sense_swap : bool) (genes : list (N * N)) (d : disk) : disk * option h5 :=\n"
            "  let h := PRaw in %s.\n" % body)
    # verify_h5_cache: the constructor with the default sense_swap
    v = [n for n in cls.body if isinstance(n, ast.FunctionDef) and n.name == "verify_h5_cache"]
    if not v:
        fail(cls, "verify_h5_cache not found")
    v = v[0]
    b = [s for s in v.body if not (isinstance(s, ast.Expr) and isinstance(s.value, ast.Constant))]
    params = [a.arg for a in v.args.args]
    okv = False
    if len(params) == 4 and len(b) == 2 and isinstance(b[0], ast.Assign) and isinstance(b[1], ast.Return) \
            and isinstance(b[0].value, ast.Call) and dotted(b[0].value.func) == params[0] and not b[0].value.keywords \
            and [ast.unparse(a) for a in b[0].value.args] == params[1:] and ast.unparse(b[1].value) == ast.unparse(b[0].targets[0]):
        okv = True
    if len(params) == 4 and len(b) == 1 and isinstance(b[0], ast.Return) and isinstance(b[0].value, ast.Call) and dotted(b[0].value.func) == params[0] \
            and not b[0].value.keywords and [ast.unparse(a) for a in b[0].value.args] == params[1:]:
        okv = True
    if not okv:
        fail(v, "verify_h5_cache is not `return cls(h5_file, gene_data_instance, logger)`")
    out += "Definition gen_verify_h5_cache (genes : list (N * N)) (d : disk) : disk * option h5 := gen_init true genes d.\n"
    return out


HEADER = """(* GENERATED by /verif/translator/py2gallina_reader.py from the current /repo sources. Do not edit. *)
From Coq Require Import List Bool Arith NArith ZArith.
From TEV Require Import Model.Reader Model.ReaderFS.
Import ListNotations.
"""


def main():
    repo, outdir = sys.argv[1], sys.argv[2]
    os.makedirs(outdir, exist_ok=True)
    msg, rc = "translated %s DensityData.__init__ / _swap_strand_vals / _index_of_gene / verify_h5_cache" % FNAME, 0
    try:
        text = HEADER + translate(repo)
    except Unsupported as u:
        msg, rc = "UNSUPPORTED %s" % u, 2
        text = HEADER + "(* translation refused: %s *)\nDefinition translation_refused : False := I.\n" % str(u).replace("*)", "* )")
    except (SyntaxError, OSError, IndexError) as e:
        msg, rc = "UNSUPPORTED cannot read sources: %s" % e, 2
        text = HEADER + "Definition translation_refused : False := I.\n"
    print(msg)
    with open(os.path.join(outdir, "reader.status"), "w") as f:
        f.write("%s\nexit %d\n" % (msg, rc))
    p = os.path.join(outdir, "GenReader.v")
    if not os.path.exists(p) or open(p).read() != text:
        with open(p, "w") as f:
            f.write(text)
    return rc


if __name__ == "__main__":
    sys.exit(main())
