#!/usr/bin/env python3
"""py2gallina_lookup: translate the lookup by labels of TE_Density's reader - density_utils.get_specific_slice with
DensityData._verify_te_category_string, _verify_direction_string, _verify_window_val, _verify_te_name, the three
index-dictionary properties, _index_of_gene and the binding of the six array attributes in DensityData.__init__ -
into Gallina functions over the label lists (Model/Reader.v index functions).

usage: py2gallina_lookup.py <repo> <outdir>     writes <outdir>/GenLookup.v and <outdir>/lookup.status

Strings that the code compares with are turned into numbers: te_category "Order" = 0, "Superfamily" = 1, direction
"Upstream" = 0, "Intra" = 1, "Downstream" = 2; any other string is any other number.  Table (trusted):
    d = {}; for i in range(len(L)): d[L[i]] = i; return d      d[x] = index of the LAST occurrence of x in L (KeyError = None)
    if x not in L: raise ...                                   the lookup fails (None) unless memN / memZ x L
    L.index(x)                                                 index of the FIRST occurrence
    self.<attr> = self.data_frame["RHO_<AXIS>_<SIDE>"]          the attribute is the array (axis, side)
    A[i, j, gene_indices]                                      the cells (array, i, j, every requested gene index)
    `window_val not in self.window_list` with window_val None  true (None is not an int of the list)
Fail-closed: anything else aborts with exit status 2 and the generated file does not type-check.
"""
import ast, os, sys


class Unsupported(Exception):
    pass


def fail(node, msg, fname="transposon/density_utils.py"):
    raise Unsupported("%s:%s: %s" % (fname, getattr(node, "lineno", "?"), msg))


def U(e):
    return ast.unparse(e).replace(" ", "").replace("\n", "")


def body_of(fn):
    return [s for s in fn.body if not (isinstance(s, ast.Expr) and isinstance(s.value, ast.Constant))]


CAT = {"Order": 0, "Superfamily": 1}
DIR = {"Upstream": 0, "Intra": 1, "Downstream": 2}
DATASETS = {"RHO_ORDERS_LEFT": ("LOrd", "SL"), "RHO_ORDERS_INTRA": ("LOrd", "SI"), "RHO_ORDERS_RIGHT": ("LOrd", "SR"),
            "RHO_SUPERFAMILIES_LEFT": ("LSup", "SL"), "RHO_SUPERFAMILIES_INTRA": ("LSup", "SI"), "RHO_SUPERFAMILIES_RIGHT": ("LSup", "SR")}
DD = "transposon/density_data.py"


def raises(ss):
    return len(ss) == 1 and isinstance(ss[0], ast.Raise)


def translate(repo):
    dt = ast.parse(open(os.path.join(repo, DD)).read())
    cls = [n for n in dt.body if isinstance(n, ast.ClassDef) and n.name == "DensityData"]
    if not cls:
        fail(dt, "class DensityData not found", DD)
    m = {f.name: f for f in cls[0].body if isinstance(f, ast.FunctionDef)}

    # ---- __init__: the lists and the six arrays
    init = m.get("__init__") or fail(dt, "__init__ not found", DD)
    attrs, lists = {}, {}
    for st in ast.walk(init):
        if isinstance(st, ast.Assign) and len(st.targets) == 1 and U(st.targets[0]).startswith("self."):
            name, v = U(st.targets[0])[5:], st.value
            if isinstance(v, ast.Subscript) and U(v.value) == "self.data_frame" and isinstance(v.slice, ast.Constant) and v.slice.value in DATASETS:
                if name in attrs and attrs[name] != DATASETS[v.slice.value]:
                    fail(st, "attribute %s bound twice" % name, DD)
                attrs[name] = DATASETS[v.slice.value]
            elif isinstance(v, ast.ListComp) and len(v.generators) == 1 and not v.generators[0].ifs:
                src = U(v.generators[0].iter)
                lists.setdefault(name, set()).add(src)
    want_lists = {"gene_list": "self.data_frame['GENE_NAMES'][:]", "order_list": "self.data_frame['ORDER_NAMES'][:]",
                  "super_list": "self.data_frame['SUPERFAMILY_NAMES'][:]", "window_list": "self.windows[:]"}
    for k, v in want_lists.items():
        if lists.get(k) != {v}:
            fail(init, "self.%s is not read from %s: %s" % (k, v, lists.get(k)), DD)
    if len(attrs) != 6 or sorted(attrs.values()) != sorted(DATASETS.values()):
        fail(init, "the six array attributes are not bound to the six RHO datasets: %s" % attrs, DD)

    # ---- the index dictionaries
    dicts = {}
    for prop, lst in (("order_index_dict", "order_list"), ("super_index_dict", "super_list"), ("window_index_dict", "window_list")):
        fn = m.get(prop) or fail(dt, "%s not found" % prop, DD)
        b = body_of(fn)
        ok = (len(b) == 3 and isinstance(b[0], ast.Assign) and U(b[0].value) == "{}" and isinstance(b[1], ast.For) and isinstance(b[2], ast.Return)
              and U(b[2].value) == U(b[0].targets[0]) and isinstance(b[1].target, ast.Name)
              and U(b[1].iter) == "range(len(self.%s))" % lst and len(b[1].body) == 1
              and U(b[1].body[0]) == "%s[self.%s[%s]]=%s" % (U(b[0].targets[0]), lst, b[1].target.id, b[1].target.id)
              and any(isinstance(d, ast.Name) and d.id == "property" for d in fn.decorator_list))
        if not ok:
            fail(fn, "%s is not the loop `for i in range(len(self.%s)): d[self.%s[i]] = i`" % (prop, lst, lst), DD)
        dicts[prop] = lst

    # ---- _index_of_gene
    fn = m.get("_index_of_gene") or fail(dt, "_index_of_gene not found", DD)
    b = body_of(fn)
    p = [a.arg for a in fn.args.args][1]
    if not (len(b) == 2 and isinstance(b[0], ast.If) and U(b[0].test) == "%snotinself.gene_list" % p and raises(b[0].body) and not b[0].orelse
            and "IndexError" in U(b[0].body[0]) and isinstance(b[1], ast.Return) and U(b[1].value) == "self.gene_list.index(%s)" % p):
        fail(fn, "_index_of_gene is not: IndexError unless in self.gene_list; self.gene_list.index(name)", DD)

    # ---- the four verifications
    def member_check(name, codes):
        fn = m.get(name) or fail(dt, "%s not found" % name, DD)
        b = body_of(fn)
        p = [a.arg for a in fn.args.args][1]
        if not (len(b) == 2 and isinstance(b[0], ast.Assign) and isinstance(b[0].value, ast.List) and isinstance(b[1], ast.If)
                and U(b[1].test) == "%snotin%s" % (p, U(b[0].targets[0])) and raises(b[1].body) and "ValueError" in U(b[1].body[0]) and not b[1].orelse):
            fail(fn, "%s is not: ValueError unless the argument is in a literal list" % name, DD)
        vals = [x.value for x in b[0].value.elts if isinstance(x, ast.Constant)]
        if sorted(vals) != sorted(codes) or len(vals) != len(b[0].value.elts):
            fail(fn, "%s accepts %s, expected %s" % (name, vals, sorted(codes)), DD)
    member_check("_verify_te_category_string", CAT)
    member_check("_verify_direction_string", DIR)

    fn = m.get("_verify_window_val") or fail(dt, "_verify_window_val not found", DD)
    b = body_of(fn)
    pd, pw = [a.arg for a in fn.args.args][1:3]
    ok = (len(b) == 3 and isinstance(b[0], ast.If) and U(b[0].test) == "%s=='Intra'and%sisnotNone" % (pd, pw) and raises(b[0].body)
          and len(b[0].orelse) == 1 and isinstance(b[0].orelse[0], ast.If) and U(b[0].orelse[0].test) == "%s=='Intra'and%sisNone" % (pd, pw)
          and len(b[0].orelse[0].body) == 1 and isinstance(b[0].orelse[0].body[0], ast.Return) and b[0].orelse[0].body[0].value is None
          and not b[0].orelse[0].orelse
          and isinstance(b[1], ast.Assign) and U(b[1].value) == "self.window_list"
          and isinstance(b[2], ast.If) and U(b[2].test) == "%snotin%s" % (pw, U(b[1].targets[0])) and raises(b[2].body) and not b[2].orelse)
    if not ok:
        fail(fn, "_verify_window_val is not: Intra needs None; otherwise the value must be in self.window_list", DD)

    fn = m.get("_verify_te_name") or fail(dt, "_verify_te_name not found", DD)
    b = body_of(fn)
    pc, pn = [a.arg for a in fn.args.args][1:3]
    ok = (len(b) == 3 and all(isinstance(x, ast.If) for x in b)
          and U(b[0].test) == "%s=='Order'" % pc and U(b[0].body[0]).endswith("=self.order_list") and not b[0].orelse and len(b[0].body) == 1
          and U(b[1].test) == "%s=='Superfamily'" % pc and U(b[1].body[0]).endswith("=self.super_list") and not b[1].orelse and len(b[1].body) == 1
          and U(b[0].body[0]).split("=")[0] == U(b[1].body[0]).split("=")[0]
          and U(b[2].test) == "%snotin%s" % (pn, U(b[0].body[0]).split("=")[0]) and raises(b[2].body) and not b[2].orelse)
    if not ok:
        fail(fn, "_verify_te_name is not: the name must be in the list of its category", DD)

    # ---- get_specific_slice
    ut = ast.parse(open(os.path.join(repo, "transposon/density_utils.py")).read())
    fns = {f.name: f for f in ut.body if isinstance(f, ast.FunctionDef)}
    fn = fns.get("get_specific_slice") or fail(ut, "get_specific_slice not found")
    params = [a.arg for a in fn.args.args]
    if params != ["dd_instance", "te_category", "te_name", "direction", "window_val", "gene_indices"]:
        fail(fn, "parameters of get_specific_slice: %s" % params)
    b = body_of(fn)
    want_calls = ["dd_instance._verify_te_category_string(te_category)", "dd_instance._verify_direction_string(direction)",
                  "dd_instance._verify_window_val(direction,window_val)", "dd_instance._verify_te_name(te_category,te_name)"]
    calls = [U(s) for s in b[:4]]
    if sorted(calls) != sorted(want_calls) or calls.index(want_calls[0]) > calls.index(want_calls[3]):
        fail(fn, "get_specific_slice does not begin with the four verifications (category before name): %s" % calls)
    if len(b) != 6 or not isinstance(b[4], ast.If) or not isinstance(b[5], ast.Return):
        fail(fn, "get_specific_slice is not: verifications, one if/elif chain, return")
    res_var = None
    branches = []
    node = b[4]
    while True:
        t = node.test
        if not (isinstance(t, ast.BoolOp) and isinstance(t.op, ast.And) and len(t.values) == 2):
            fail(node, "branch test %s" % ast.unparse(t))
        conds = {}
        for v in t.values:
            if isinstance(v, ast.Compare) and len(v.ops) == 1 and isinstance(v.ops[0], ast.Eq) and isinstance(v.left, ast.Name) and isinstance(v.comparators[0], ast.Constant):
                conds[v.left.id] = v.comparators[0].value
        if sorted(conds) != ["direction", "te_category"] or conds["direction"] not in DIR or conds["te_category"] not in CAT:
            fail(node, "branch test %s" % ast.unparse(t))
        if len(node.body) != 1 or not isinstance(node.body[0], ast.Assign) or not isinstance(node.body[0].value, ast.Subscript):
            fail(node, "branch body")
        a = node.body[0]
        res_var = res_var or U(a.targets[0])
        if U(a.targets[0]) != res_var:
            fail(a, "branches assign different variables")
        sub = a.value
        arr = U(sub.value)
        if not arr.startswith("dd_instance.") or arr[12:] not in attrs:
            fail(a, "array %s" % arr)
        idx = sub.slice.elts if isinstance(sub.slice, ast.Tuple) else None
        if idx is None or len(idx) != 3 or U(idx[2]) != "gene_indices":
            fail(a, "index of the array is not (group, window, gene_indices)")
        gi = U(idx[0])
        if gi not in ("dd_instance.order_index_dict[te_name]", "dd_instance.super_index_dict[te_name]"):
            fail(a, "group index %s" % gi)
        wi = U(idx[1])
        if wi == "0":
            wsel = "zero"
        elif wi == "dd_instance.window_index_dict[window_val]":
            wsel = "dict"
        else:
            fail(a, "window index %s" % wi)
        branches.append((DIR[conds["direction"]], CAT[conds["te_category"]], attrs[arr[12:]], dicts[gi[12:gi.index("[")]], wsel))
        if len(node.orelse) == 1 and isinstance(node.orelse[0], ast.If):
            node = node.orelse[0]
            continue
        if not raises(node.orelse):
            fail(node, "the chain does not end in `else: raise`")
        break
    if not (isinstance(b[5].value, ast.Call) and U(b[5].value.func) == "DensitySlice" and U(b[5].value.args[0]) == res_var):
        fail(b[5], "get_specific_slice does not return DensitySlice(<the selected cells>, ...)")

    # ---- emit
    out = []
    out.append("Definition gen_order_index (orders : list N) (n : N) : option nat := last_index n orders.")
    out.append("Definition gen_super_index (supers : list N) (n : N) : option nat := last_index n supers.")
    out.append("Definition gen_window_index (windows : list Z) (w : Z) : option nat := last_indexZ w windows.")
    out.append("Definition gen_index_of_gene (genes : list N) (g : N) : option nat := if memN g genes then first_index g genes else None.")
    chain = "None"
    for d, c, (lv, sd), lst, wsel in reversed(branches):
        names = "orders" if lst == "order_list" else "supers"
        gidx = "last_index name %s" % names
        if wsel == "zero":
            cell = "match %s with Some i => Some (%s, %s, i, 0%%nat) | None => None end" % (gidx, lv, sd)
        else:
            cell = ("match %s with Some i => match w with Some wv => match last_indexZ wv windows with Some j => Some (%s, %s, i, j) | None => None end "
                    "| None => None end | None => None end" % (gidx, lv, sd))
        chain = "if (dir =? %d)%%N && (cat =? %d)%%N then %s else %s" % (d, c, cell, chain)
    order = [U(s) for s in b[:4]]
    guards = {
        want_calls[0]: "if negb ((cat =? 0)%N || (cat =? 1)%N) then None else",
        want_calls[1]: "if negb ((dir =? 0)%N || (dir =? 1)%N || (dir =? 2)%N) then None else",
        want_calls[2]: "if (dir =? 1)%N && (match w with Some _ => true | None => false end) then None else\n"
                       "  if negb ((dir =? 1)%N && (match w with Some _ => false | None => true end)) && negb (match w with Some wv => memZ wv windows | None => false end) then None else",
        want_calls[3]: "if negb (memN name (if (cat =? 0)%N then orders else supers)) then None else",
    }
    out.append("Definition gen_get_specific_slice (cat dir : N) (name : N) (w : option Z) (orders supers : list N) (windows : list Z)\n"
               "    : option (level * side * nat * nat) :=\n  " + "\n  ".join(guards[c] for c in order) + "\n  " + chain + ".")
    return out


HEADER = """(* GENERATED by /verif/translator/py2gallina_lookup.py from the current /repo sources. Do not edit. *)
From Coq Require Import ZArith NArith List Bool.
From TEV Require Import Model.Pipeline Model.Reader.
Import ListNotations.
"""


def main():
    repo, outdir = sys.argv[1], sys.argv[2]
    os.makedirs(outdir, exist_ok=True)
    msg, rc = "translated get_specific_slice, the verifications, the index dictionaries, _index_of_gene and the array attributes of DensityData", 0
    try:
        text = HEADER + "\n".join(translate(repo)) + "\n"
    except Unsupported as u:
        msg, rc = "UNSUPPORTED %s" % u, 2
        text = HEADER + "(* translation refused: %s *)\nDefinition translation_refused : False := I.\n" % str(u).replace("*)", "* )")
    except (SyntaxError, OSError, KeyError, IndexError, AttributeError, TypeError, ValueError) as e:
        msg, rc = "UNSUPPORTED cannot read sources: %s: %s" % (type(e).__name__, e), 2
        text = HEADER + "Definition translation_refused : False := I.\n"
    print(msg)
    with open(os.path.join(outdir, "lookup.status"), "w") as f:
        f.write("%s\nexit %d\n" % (msg, rc))
    p = os.path.join(outdir, "GenLookup.v")
    if not os.path.exists(p) or open(p).read() != text:
        with open(p, "w") as f:
            f.write(text)
    return rc


if __name__ == "__main__":
    sys.exit(main())
