#!/usr/bin/env python3
"""py2gallina_pair: translate DensityData._pair_by_chromosome (transposon/density_data.py) - the function that decides
which gene annotation every result file is combined with - statement by statement into Gallina, and recognise how the two
directory-level constructors use its result.

usage: py2gallina_pair.py <repo> <outdir>     writes <outdir>/GenPair.v and <outdir>/pair.status

Values (Model/Pair.v): a GeneData object is (position in list_of_gene_data, chromosome identifier); a result file is
(position in h5_files, entries of its CHROMOSOME_ID dataset); a returned pair is (file position, GeneData position).

Reading (trusted):
  x = {} / x = []                      an empty dict with identifier keys / an empty list of pairs
  for v in <one of the two list parameters>: ...
                                        one Fixpoint per loop over the enumerated list; the loop's state is every dict / list
                                        of the enclosing scope the body mutates (d[k] = v, l.append(..)); names assigned in the
                                        body are local to the iteration (a later read is refused)
  str(e), e.decode("utf-8")            the identity on identifiers;   gd.chromosome_unique_id the identifier of the GeneData
  with h5py.File(f, "r") as h:         h["CHROMOSOME_ID"][:] (or without [:]) is the stored list of the file f
  set(<elt> for c in <stored list>)    the distinct elements (set_of), elt an identity on c;   len(s) their number
  list(s)[0]                           IndexError (-> None) on the empty set, otherwise `pick s`: the element the iteration
                                        of the set yields first, an oracle of which the theorems assume only pick [x] = x
  k in d / k not in d / d[k]           pd_mem / its negation / pd_get (KeyError -> None)
  a or b / a and b / not a             evaluated left to right with Python's short circuit (a raising operand that is not
                                        reached does not raise)
  if c: ... [else: ...]                both branches continue with the statements that follow
  raise                                None;   return l   Some l (only outside the loops)
  logger.<anything>(...), docstrings   skipped
The constructors from_list_genedata_dir_and_hdf5_dir and from_list_gene_data_and_hdf5_dir must return a list comprehension
over cls._pair_by_chromosome(<files>, <gene data>, logger) that builds one object per pair; which component of the pair goes
to which argument of the object is emitted (gen_dir_constructed, gen_regex_constructed). examples/general_read_density_data.py must build its
readers through exactly one call of one of these two constructors and through nothing else (gen_example_constructed).
Fail-closed: anything else aborts with exit status 2 and the generated file does not type-check.
"""
import ast, os, sys


class Unsupported(Exception):
    pass


F = "transposon/density_data.py"


def fail(node, msg):
    raise Unsupported("%s:%s: %s" % (F, getattr(node, "lineno", "?"), msg))


def U(e):
    return ast.unparse(e).replace(" ", "").replace("\n", "")


COQTYPE = {"dict": "pdict", "pairs": "list (nat * nat)", "set": "pset", "id": "N", "nat": "nat"}


def is_logger_call(st):
    return isinstance(st, ast.Expr) and isinstance(st.value, ast.Call) and isinstance(st.value.func, ast.Attribute) and \
        isinstance(st.value.func.value, ast.Name) and st.value.func.value.id in ("logger", "logging")


class T:
    def __init__(self, p_h5, p_gd):
        self.p_h5, self.p_gd = p_h5, p_gd
        self.defs = []
        self.nloop = 0
        self.in_loop = 0

    # ---- expressions of type identifier, in continuation-passing style (k receives the Coq text)
    def idexpr(self, e, env, k):
        if isinstance(e, ast.Name):
            if e.id in env and env[e.id][1] == "id":
                return k(env[e.id][0])
            fail(e, "name %s is not an identifier here" % e.id)
        if isinstance(e, ast.Call) and isinstance(e.func, ast.Name) and e.func.id == "str" and len(e.args) == 1 and not e.keywords:
            return self.idexpr(e.args[0], env, k)
        if isinstance(e, ast.Call) and isinstance(e.func, ast.Attribute) and e.func.attr == "decode" and len(e.args) <= 1:
            return self.idexpr(e.func.value, env, k)
        if isinstance(e, ast.Attribute) and e.attr == "chromosome_unique_id" and isinstance(e.value, ast.Name) and \
                env.get(e.value.id, (None, None))[1] == "gd":
            return k(env[e.value.id][0] + "__id")
        # list(s)[0]
        if isinstance(e, ast.Subscript) and isinstance(e.slice, ast.Constant) and e.slice.value == 0 and isinstance(e.value, ast.Call) and \
                isinstance(e.value.func, ast.Name) and e.value.func.id == "list" and len(e.value.args) == 1 and isinstance(e.value.args[0], ast.Name) \
                and env.get(e.value.args[0].id, (None, None))[1] == "set":
            s = env[e.value.args[0].id][0]
            return "match %s with [] => None | _ :: _ => %s end" % (s, k("(pick %s)" % s))
        fail(e, "unsupported identifier expression %s" % U(e))

    def natexpr(self, e, env):
        if isinstance(e, ast.Constant) and isinstance(e.value, int) and not isinstance(e.value, bool) and 0 <= e.value < 1000:
            return "%d" % e.value
        if isinstance(e, ast.Call) and isinstance(e.func, ast.Name) and e.func.id == "len" and len(e.args) == 1 and isinstance(e.args[0], ast.Name) \
                and env.get(e.args[0].id, (None, None))[1] == "set":
            return "(set_len %s)" % env[e.args[0].id][0]
        fail(e, "unsupported number %s" % U(e))

    # ---- conditions: kt / kf are the Coq texts to continue with when the condition is true / false
    def cond(self, e, env, kt, kf):
        if isinstance(e, ast.BoolOp):
            vals = list(e.values)
            if isinstance(e.op, ast.Or):
                out = kf
                for v in reversed(vals):
                    out = self.cond(v, env, kt, out)
                return out
            out = kt
            for v in reversed(vals):
                out = self.cond(v, env, out, kf)
            return out
        if isinstance(e, ast.UnaryOp) and isinstance(e.op, ast.Not):
            return self.cond(e.operand, env, kf, kt)
        if isinstance(e, ast.Compare) and len(e.ops) == 1:
            op, l, r = e.ops[0], e.left, e.comparators[0]
            if isinstance(op, (ast.In, ast.NotIn)):
                if not (isinstance(r, ast.Name) and env.get(r.id, (None, None))[1] == "dict"):
                    fail(e, "membership in something that is not a dict of this function: %s" % U(e))
                d = env[r.id][0]
                a, b = (kt, kf) if isinstance(op, ast.In) else (kf, kt)
                return self.idexpr(l, env, lambda x: "if pd_mem %s %s then %s else %s" % (x, d, a, b))
            tab = {ast.Eq: "Nat.eqb %s %s", ast.NotEq: "negb (Nat.eqb %s %s)", ast.Lt: "Nat.ltb %s %s", ast.Gt: "Nat.ltb %s %s", ast.LtE: "Nat.leb %s %s",
                   ast.GtE: "Nat.leb %s %s"}
            if type(op) in tab:
                a, b = self.natexpr(l, env), self.natexpr(r, env)
                if isinstance(op, (ast.Gt, ast.GtE)):
                    a, b = b, a
                return "if %s then %s else %s" % (tab[type(op)] % (a, b), kt, kf)
        fail(e, "unsupported condition %s" % U(e))

    # ---- statements
    def mutated(self, body, env):
        out = []
        for n in ast.walk(ast.Module(body=body, type_ignores=[])):
            name = None
            if isinstance(n, ast.Assign):
                for t in n.targets:
                    if isinstance(t, ast.Subscript) and isinstance(t.value, ast.Name):
                        name = t.value.id
                    elif isinstance(t, ast.Name) and t.id in env and env[t.id][1] in ("dict", "pairs"):
                        fail(n, "a dict / list of the enclosing scope is rebound inside a loop: %s" % t.id)
            if isinstance(n, ast.AugAssign):
                fail(n, "augmented assignment")
            if isinstance(n, ast.Call) and isinstance(n.func, ast.Attribute) and isinstance(n.func.value, ast.Name) and \
                    n.func.attr in ("append", "extend", "insert", "pop", "remove", "clear", "update", "setdefault", "popitem", "add", "discard", "sort", "reverse"):
                name = n.func.value.id
            if isinstance(n, ast.Delete):
                fail(n, "del")
            if name is not None and name in env and env[name][1] in ("dict", "pairs") and name not in out:
                out.append(name)
        return out

    def block(self, stmts, env, k):
        if not stmts:
            return k(env)
        st, rest = stmts[0], stmts[1:]
        go = lambda env2: self.block(rest, env2, k)
        if isinstance(st, ast.Expr) and isinstance(st.value, ast.Constant) and isinstance(st.value.value, str):
            return go(env)
        if is_logger_call(st):
            return go(env)
        if isinstance(st, ast.Pass):
            return go(env)
        if isinstance(st, ast.Raise):
            return "None"
        if isinstance(st, ast.Return):
            if self.in_loop:
                fail(st, "return inside a loop")
            if isinstance(st.value, ast.Name) and env.get(st.value.id, (None, None))[1] == "pairs":
                return "Some %s" % env[st.value.id][0]
            fail(st, "the function returns something that is not its list of pairs")
        if isinstance(st, ast.If):
            # both branches continue with the rest
            kt = self.block(list(st.body) + rest, dict(env), k)
            kf = self.block(list(st.orelse) + rest, dict(env), k)
            return self.cond(st.test, env, "(" + kt + ")", "(" + kf + ")")
        if isinstance(st, ast.With):
            if len(st.items) != 1 or st.items[0].optional_vars is None or not isinstance(st.items[0].optional_vars, ast.Name):
                fail(st, "with statement")
            c = st.items[0].context_expr
            if not (isinstance(c, ast.Call) and U(c.func) == "h5py.File" and len(c.args) == 2 and not c.keywords and isinstance(c.args[0], ast.Name)
                    and env.get(c.args[0].id, (None, None))[1] == "h5" and isinstance(c.args[1], ast.Constant) and c.args[1].value == "r"):
                fail(st, "only `with h5py.File(<result file of the loop>, \"r\") as <name>` is read")
            env2 = dict(env)
            env2[st.items[0].optional_vars.id] = (env[c.args[0].id][0], "fh")
            return self.block(list(st.body) + rest, env2, k)
        if isinstance(st, ast.Expr) and isinstance(st.value, ast.Call) and isinstance(st.value.func, ast.Attribute) and st.value.func.attr == "append" \
                and isinstance(st.value.func.value, ast.Name) and env.get(st.value.func.value.id, (None, None))[1] == "pairs":
            lst = st.value.func.value.id
            a = st.value.args
            if len(a) != 1 or st.value.keywords or not isinstance(a[0], ast.Tuple) or len(a[0].elts) != 2:
                fail(st, "append of something that is not a pair")
            fst, snd = a[0].elts
            if not (isinstance(fst, ast.Name) and env.get(fst.id, (None, None))[1] == "h5"):
                fail(st, "the first component of a pair must be the result file of the loop")
            h = env[fst.id][0]
            lname = env[lst][0]
            def with_gd(v):
                env2 = dict(env)
                return "let %s := %s ++ [(%s, %s)] in %s" % (lname, lname, h, v, go(env2))
            if isinstance(snd, ast.Name) and env.get(snd.id, (None, None))[1] == "gd":
                return with_gd(env[snd.id][0])
            if isinstance(snd, ast.Subscript) and isinstance(snd.value, ast.Name) and env.get(snd.value.id, (None, None))[1] == "dict":
                d = env[snd.value.id][0]
                return self.idexpr(snd.slice, env, lambda x: "match pd_get %s %s with None => None | Some gd_found => %s end" % (x, d, with_gd("gd_found")))
            fail(st, "the second component of a pair must be a GeneData: %s" % U(snd))
        if isinstance(st, ast.Assign) and len(st.targets) == 1:
            t, v = st.targets[0], st.value
            if isinstance(t, ast.Subscript) and isinstance(t.value, ast.Name) and env.get(t.value.id, (None, None))[1] == "dict":
                d = env[t.value.id][0]
                if not (isinstance(v, ast.Name) and env.get(v.id, (None, None))[1] == "gd"):
                    fail(st, "a dict entry is bound to something that is not the GeneData of the loop")
                g = env[v.id][0]
                return self.idexpr(t.slice, env, lambda x: "let %s := pd_set %s %s %s in %s" % (d, x, g, d, go(dict(env))))
            if isinstance(t, ast.Name):
                if t.id in env and env[t.id][1] in ("gd", "h5", "fh"):
                    fail(st, "loop variable rebound")
                if isinstance(v, ast.Dict) and not v.keys:
                    if self.in_loop:
                        fail(st, "a dict created inside a loop")
                    env2 = dict(env); env2[t.id] = (t.id, "dict")
                    return "let %s := ([] : pdict) in %s" % (t.id, go(env2))
                if isinstance(v, ast.List) and not v.elts:
                    if self.in_loop:
                        fail(st, "a list created inside a loop")
                    env2 = dict(env); env2[t.id] = (t.id, "pairs")
                    return "let %s := ([] : list (nat * nat)) in %s" % (t.id, go(env2))
                if isinstance(v, ast.Call) and isinstance(v.func, ast.Name) and v.func.id == "set" and len(v.args) == 1 and not v.keywords and \
                        isinstance(v.args[0], (ast.GeneratorExp, ast.ListComp)):
                    ge = v.args[0]
                    if len(ge.generators) != 1 or ge.generators[0].ifs or ge.generators[0].is_async or not isinstance(ge.generators[0].target, ast.Name):
                        fail(st, "comprehension")
                    cv = ge.generators[0].target.id
                    it = ge.generators[0].iter
                    if isinstance(it, ast.Subscript) and isinstance(it.slice, ast.Slice) and it.slice.lower is None and it.slice.upper is None and it.slice.step is None:
                        it = it.value
                    if not (isinstance(it, ast.Subscript) and isinstance(it.slice, ast.Constant) and it.slice.value == "CHROMOSOME_ID" and
                            isinstance(it.value, ast.Name) and env.get(it.value.id, (None, None))[1] == "fh"):
                        fail(st, "the set is not made from the CHROMOSOME_ID dataset of the opened result file")
                    stored = env[it.value.id][0] + "__stored"
                    envc = {cv: (cv, "id")}
                    if self.idexpr(ge.elt, envc, lambda x: x) != cv:
                        fail(st, "the elements of the set are not the stored identifiers themselves")
                    env2 = dict(env); env2[t.id] = (t.id, "set")
                    return "let %s := set_of %s in %s" % (t.id, stored, go(env2))
                # an identifier
                env2 = dict(env); env2[t.id] = (t.id, "id")
                return self.idexpr(v, env, lambda x: "let %s := %s in %s" % (t.id, x, go(env2)))
        if isinstance(st, ast.For):
            if st.orelse or not isinstance(st.target, ast.Name) or not isinstance(st.iter, ast.Name) or st.iter.id not in (self.p_h5, self.p_gd):
                fail(st, "only `for <name> in <h5_files | list_of_gene_data>` is read")
            if self.in_loop:
                fail(st, "nested loop")
            for n in ast.walk(st):
                if isinstance(n, (ast.Break, ast.Continue)):
                    fail(n, "break / continue")
            kind = "h5" if st.iter.id == self.p_h5 else "gd"
            v = st.target.id
            state = self.mutated(st.body, env)
            args = [n for n in env if env[n][1] in COQTYPE]
            self.nloop += 1
            fname = "gen_pair_loop_%d" % self.nloop
            rett = " * ".join(COQTYPE[env[n][1]] for n in state) if state else "unit"
            retv = ("(" + ", ".join(env[n][0] for n in state) + ")") if state else "tt"
            envb = dict(env)
            envb[v] = (v, kind)
            self.in_loop += 1
            rec = "%s xs'%s" % (fname, "".join(" " + env[n][0] for n in args))
            body = self.block(list(st.body), envb, lambda e_: rec)
            self.in_loop -= 1
            second = "%s__stored" % v if kind == "h5" else "%s__id" % v
            eltt = "list N" if kind == "h5" else "N"
            self.defs.append("Fixpoint %s (xs : list (nat * %s))%s : option (%s) :=\n  match xs with\n  | [] => Some %s\n  | (%s, %s) :: xs' =>\n      %s\n  end." %
                             (fname, eltt, "".join(" (%s : %s)" % (env[n][0], COQTYPE[env[n][1]]) for n in args), rett, retv, v, second, body))
            call = "%s (enum %s)%s" % (fname, "h5s" if kind == "h5" else "gds", "".join(" " + env[n][0] for n in args))
            return "match %s with None => None | Some %s => %s end" % (call, retv, go(dict(env)))
        fail(st, "unsupported statement %s" % U(st)[:80])


def find_method(tree, name):
    for c in tree.body:
        if isinstance(c, ast.ClassDef) and c.name == "DensityData":
            for n in c.body:
                if isinstance(n, ast.FunctionDef) and n.name == name:
                    return n
    fail(tree, "DensityData.%s not found" % name)


def constructed(fn):
    """the returned list comprehension over cls._pair_by_chromosome: which pair component goes to which argument"""
    rets = [n for n in ast.walk(fn) if isinstance(n, ast.Return)]
    if len(rets) != 1 or not isinstance(rets[0].value, ast.Name):
        fail(fn, "%s does not end in one `return <name>`" % fn.name)
    rn = rets[0].value.id
    assigns = [n for n in ast.walk(fn) if isinstance(n, ast.Assign) and any(isinstance(t, ast.Name) and t.id == rn for t in n.targets)]
    for n in ast.walk(fn):
        if isinstance(n, ast.Call) and isinstance(n.func, ast.Attribute) and isinstance(n.func.value, ast.Name) and n.func.value.id == rn:
            fail(n, "the returned list is modified after it was made")
        if isinstance(n, (ast.AugAssign, ast.Delete)) and rn in U(n):
            fail(n, "the returned list is modified after it was made")
    if len(assigns) != 1 or not isinstance(assigns[0].value, ast.ListComp):
        fail(fn, "the returned list of %s is not one list comprehension" % fn.name)
    lc = assigns[0].value
    if len(lc.generators) != 1 or lc.generators[0].ifs or not isinstance(lc.generators[0].target, ast.Tuple) or len(lc.generators[0].target.elts) != 2:
        fail(lc, "comprehension of %s" % fn.name)
    a, b = [U(x) for x in lc.generators[0].target.elts]
    it = lc.generators[0].iter
    if not (isinstance(it, ast.Call) and U(it.func) in ("cls._pair_by_chromosome", "DensityData._pair_by_chromosome") and len(it.args) == 3 and not it.keywords):
        fail(lc, "%s does not iterate over _pair_by_chromosome(files, gene data, logger)" % fn.name)
    files, gds = U(it.args[0]), U(it.args[1])
    elt = lc.elt
    if not (isinstance(elt, ast.Call) and U(elt.func) in ("cls", "cls.verify_h5_cache", "DensityData", "DensityData.verify_h5_cache") and len(elt.args) >= 2):
        fail(lc, "%s does not build one DensityData per pair" % fn.name)
    x, y = U(elt.args[0]), U(elt.args[1])
    if {x, y} != {a, b}:
        fail(lc, "%s: the object of a pair is not built from the two components of that pair" % fn.name)
    for kw in elt.keywords:
        if kw.arg in ("input_h5", "gene_data", None):
            fail(lc, "keyword %s" % kw.arg)
    return ("(fst p, snd p)" if (x, y) == (a, b) else "(snd p, fst p)"), files, gds


def translate(repo):
    tree = ast.parse(open(os.path.join(repo, F)).read())
    fn = find_method(tree, "_pair_by_chromosome")
    if not any(U(d) == "staticmethod" for d in fn.decorator_list):
        fail(fn, "_pair_by_chromosome is not a staticmethod")
    params = [a.arg for a in fn.args.args]
    if len(params) != 3 or fn.args.vararg or fn.args.kwarg or fn.args.kwonlyargs or fn.args.defaults:
        fail(fn, "parameters of _pair_by_chromosome: %s" % params)
    t = T(params[0], params[1])
    body = t.block(list(fn.body), {}, lambda env: "None (* falls off the end: returns None, which no caller can iterate *)")
    out = ["Section GenPair.", "Variable pick : pset -> N.    (* list(s)[0] of a non-empty set s *)", ""]
    out += t.defs
    out.append("Definition gen_pair_by_chromosome (h5s : list (list N)) (gds : list N) : option (list (nat * nat)) :=\n  %s." % body)
    out.append("End GenPair.")
    for name, meth in (("gen_dir_constructed", "from_list_genedata_dir_and_hdf5_dir"), ("gen_regex_constructed", "from_list_gene_data_and_hdf5_dir")):
        how, files, gds = constructed(find_method(tree, meth))
        out.append("(* %s: one object per pair of _pair_by_chromosome(%s, %s, logger): (result file, gene annotation) it is built from *)" % (meth, files, gds))
        out.append("Definition %s (ps : list (nat * nat)) : list (nat * nat) := map (fun p => %s) ps." % (name, how))
    # the reader example: its DensityData objects come from one of the two directory constructors, nothing else pairs files with annotations
    ex = "examples/general_read_density_data.py"
    etree = ast.parse(open(os.path.join(repo, ex)).read())
    made = [n for n in ast.walk(etree) if isinstance(n, ast.Call) and (U(n.func) in ("DensityData", "DensityData.verify_h5_cache") or
            (isinstance(n.func, ast.Attribute) and n.func.attr in ("verify_h5_cache",)))]
    if made:
        raise Unsupported("%s:%s: the example builds DensityData objects itself instead of through a directory constructor" % (ex, made[0].lineno))
    calls = [U(n.func) for n in ast.walk(etree) if isinstance(n, ast.Call) and U(n.func).startswith("DensityData.from_list_")]
    if len(calls) != 1 or calls[0] not in ("DensityData.from_list_gene_data_and_hdf5_dir", "DensityData.from_list_genedata_dir_and_hdf5_dir"):
        raise Unsupported("%s: expected exactly one call of a directory constructor of DensityData, found %s" % (ex, calls))
    out.append("(* %s builds its readers with %s and in no other way *)" % (ex, calls[0]))
    out.append("Definition gen_example_constructed (ps : list (nat * nat)) : list (nat * nat) := %s ps." %
               ("gen_regex_constructed" if calls[0].endswith("from_list_gene_data_and_hdf5_dir") else "gen_dir_constructed"))
    return out


HEADER = """(* GENERATED by /verif/translator/py2gallina_pair.py from the current /repo sources. Do not edit. *)
From Coq Require Import List Bool Arith NArith.
From TEV Require Import Model.Reader Model.Pair.
Import ListNotations.
"""


def main():
    repo, outdir = sys.argv[1], sys.argv[2]
    os.makedirs(outdir, exist_ok=True)
    msg, rc = "translated DensityData._pair_by_chromosome and its use by the two directory constructors", 0
    try:
        text = HEADER + "\n".join(translate(repo)) + "\n"
    except Unsupported as u:
        msg, rc = "UNSUPPORTED %s" % u, 2
        text = HEADER + "(* translation refused: %s *)\nDefinition translation_refused : False := I.\n" % str(u).replace("*)", "* )")
    except (SyntaxError, OSError, KeyError, IndexError, AttributeError, TypeError, ValueError) as e:
        msg, rc = "UNSUPPORTED cannot read sources: %s: %s" % (type(e).__name__, e), 2
        text = HEADER + "Definition translation_refused : False := I.\n"
    print(msg)
    with open(os.path.join(outdir, "pair.status"), "w") as f:
        f.write("%s\nexit %d\n" % (msg, rc))
    p = os.path.join(outdir, "GenPair.v")
    if not os.path.exists(p) or open(p).read() != text:
        with open(p, "w") as f:
            f.write(text)
    return rc


if __name__ == "__main__":
    sys.exit(main())
