#!/usr/bin/env python3
"""py2gallina_writers: translate the functions that write the reused intermediates of TE_Density into lists of file
actions over symbolic names (Model/Writers.v), so that "a reader never finds a partial file under the final name"
becomes a statement checked for every crash point of every writer.

usage: py2gallina_writers.py <repo> <outdir>    writes <outdir>/GenWriters.v and <outdir>/writers.status

Writers: ReviseAnno._write (the revised annotation and its three pass files), GeneData.write, TransposonData.write
(the per-chromosome caches), overlap_manager._calculate_overlap_job (the overlap file) with the error path of
_process_overlap_job.
Names: the function's file-name parameter (or job.output_filepath) is Final; `<Final> + ".tmp"` and
_partial_filepath(job) (whose body must be join(dirname, "partial_" + basename)) are Tmp; anything else is refused.
Statements with an effect on files are read through this table (trusted); every other statement must be free of them:
    X.to_csv(p, ...)                              WriteFile p          (creation, then content, then complete)
    OverlapWorker(p) ... .calculate(...)          WriteFile p          (the HDF5 file is created, filled, closed)
    os.replace(a, b)                              Replace a b
    if os.path.isfile(p): os.remove(p)            RemoveIfThere p      (error path)
    raise (re-raise in an except branch)          Reraise
Fail-closed: anything else aborts with exit status 2 and the generated file does not type-check.
"""
import ast, os, sys


class Unsupported(Exception):
    pass


def fail(node, msg, fname):
    raise Unsupported("%s:%s: %s" % (fname, getattr(node, "lineno", "?"), msg))


def dotted(e):
    parts = []
    while isinstance(e, ast.Attribute):
        parts.append(e.attr)
        e = e.value
    if isinstance(e, ast.Name):
        parts.append(e.id)
        return ".".join(reversed(parts))
    return None


FILE_CALLS = ("to_csv", "replace", "remove", "unlink", "rename", "copyfile", "copy", "move", "open", "File", "to_hdf", "savetxt", "write", "dump")


def file_effects(node):
    out = []
    for x in ast.walk(node):
        if isinstance(x, ast.Call):
            d = dotted(x.func) or ""
            if d.split(".")[-1] in FILE_CALLS or d in ("OverlapWorker",):
                out.append(x)
    return out


class W:
    def __init__(self, fname, fn, paths):
        self.fname, self.fn, self.paths = fname, fn, dict(paths)   # python expr text -> Final | Tmp
        self.workers = {}                                         # local name -> path (OverlapWorker(p))

    def path(self, e):
        u = ast.unparse(e)
        if u in self.paths:
            return self.paths[u]
        fail(e, "file name %s is neither the final name nor its temporary name" % u, self.fname)

    def derive(self, tgt, val):
        """record tgt := a symbolic path if val derives one"""
        if isinstance(val, ast.BinOp) and isinstance(val.op, ast.Add) and ast.unparse(val.left) in self.paths \
                and isinstance(val.right, ast.Constant) and val.right.value == ".tmp" and self.paths[ast.unparse(val.left)] == "Final":
            self.paths[tgt] = "Tmp"
            return True
        if isinstance(val, ast.Call) and dotted(val.func) == "_partial_filepath" and [ast.unparse(a) for a in val.args] == ["job"]:
            self.paths[tgt] = "Tmp"
            return True
        # another way of deriving a string from one of the names (an unknown name is refused when it is used as a file name)
        stringy = isinstance(val, (ast.BinOp, ast.JoinedStr)) or (isinstance(val, ast.Call) and (
            (dotted(val.func) or "").startswith("os.path.") or (isinstance(val.func, ast.Attribute) and ast.unparse(val.func.value) in self.paths)))
        if stringy and any(ast.unparse(x) in self.paths for x in ast.walk(val) if isinstance(x, (ast.Name, ast.Attribute))):
            fail(val, "derived file name %s" % ast.unparse(val), self.fname)
        return False

    def actions(self, ss):
        acts = []
        for st in ss:
            if isinstance(st, ast.Expr) and isinstance(st.value, ast.Constant):
                continue
            if isinstance(st, ast.Assign) and len(st.targets) == 1 and isinstance(st.targets[0], ast.Name):
                name, val = st.targets[0].id, st.value
                if isinstance(val, ast.Call) and dotted(val.func) == "OverlapWorker" and len(val.args) == 1 and not val.keywords:
                    self.workers[name] = self.path(val.args[0])
                    continue
                if self.derive(name, val):
                    continue
                if file_effects(st):
                    fail(st, "statement with an effect on files: %s" % ast.unparse(st)[:100], self.fname)
                continue
            if isinstance(st, ast.Expr) and isinstance(st.value, ast.Call):
                call = st.value
                d = dotted(call.func) or ""
                if d.endswith(".to_csv") and call.args:
                    acts.append("WriteFile %s" % self.path(call.args[0]))
                    continue
                if d == "os.replace" and len(call.args) == 2 and not call.keywords:
                    acts.append("Replace %s %s" % (self.path(call.args[0]), self.path(call.args[1])))
                    continue
                if d.endswith(".calculate") and d.split(".")[0] in self.workers:
                    acts.append("WriteFile %s" % self.workers[d.split(".")[0]])
                    continue
                if file_effects(st):
                    fail(st, "call with an effect on files: %s" % ast.unparse(st)[:100], self.fname)
                continue
            if isinstance(st, ast.Return):
                if file_effects(st):
                    fail(st, "return with an effect on files", self.fname)
                continue
            if file_effects(st):
                fail(st, "statement with an effect on files: %s" % ast.unparse(st)[:100], self.fname)
        return acts


def find(tree, cls, name, fname):
    body = tree.body
    if cls:
        cs = [n for n in tree.body if isinstance(n, ast.ClassDef) and n.name == cls]
        if not cs:
            fail(tree, "class %s not found" % cls, fname)
        body = cs[0].body
    for n in body:
        if isinstance(n, ast.FunctionDef) and n.name == name:
            return n
    fail(tree, "function %s not found" % name, fname)


def translate(repo):
    defs = []
    for fname, cls, name, param in (("transposon/revise_annotation.py", "ReviseAnno", "_write", "filename"),
                                    ("transposon/gene_data.py", "GeneData", "write", "filename"),
                                    ("transposon/transposon_data.py", "TransposonData", "write", "filename")):
        tree = ast.parse(open(os.path.join(repo, fname)).read())
        fn = find(tree, cls, name, fname)
        if param not in [a.arg for a in fn.args.args]:
            fail(fn, "parameter %s" % param, fname)
        acts = W(fname, fn, {param: "Final"}).actions(fn.body)
        defs.append("Definition gen_%s_%s : list wact := [%s]." % (cls, name.strip("_"), "; ".join(acts)))
    fname = "transposon/overlap_manager.py"
    tree = ast.parse(open(os.path.join(repo, fname)).read())
    pf = find(tree, None, "_partial_filepath", fname)
    src = " ".join(ast.unparse(s) for s in pf.body if not (isinstance(s, ast.Expr) and isinstance(s.value, ast.Constant))).replace(" ", "")
    if src != "directory,filename=os.path.split(job.output_filepath)returnos.path.join(directory,\"partial_\"+filename)".replace('"', "'"):
        fail(pf, "_partial_filepath is not join(dirname(output), 'partial_' + basename(output)): %s" % src, fname)
    fn = find(tree, None, "_calculate_overlap_job", fname)
    acts = W(fname, fn, {"job.output_filepath": "Final"}).actions(fn.body)
    defs.append("Definition gen_calculate_overlap_job : list wact := [%s]." % "; ".join(acts))
    # the error path of _process_overlap_job: try: _calculate_overlap_job(job) except Exception: remove the partial file if it is there; raise
    fn = find(tree, None, "_process_overlap_job", fname)
    tries = [s for s in fn.body if isinstance(s, ast.Try)]
    if len(tries) != 1 or len(tries[0].handlers) != 1:
        fail(fn, "_process_overlap_job is not one try block with one handler", fname)
    t = tries[0]
    body_calls = [dotted(x.func) for s in t.body for x in ast.walk(s) if isinstance(x, ast.Call)]
    if "_calculate_overlap_job" not in body_calls:
        fail(t, "the try block does not call _calculate_overlap_job", fname)
    h = t.handlers[0]
    if dotted(h.type) not in ("Exception", "BaseException"):
        fail(h, "handler class %s" % ast.unparse(h.type), fname)
    hacts = []
    for st in h.body:
        if isinstance(st, ast.If) and ast.unparse(st.test).replace(" ", "") == "os.path.isfile(_partial_filepath(job))" and not st.orelse \
                and len(st.body) == 1 and ast.unparse(st.body[0]).replace(" ", "") == "os.remove(_partial_filepath(job))":
            hacts.append("RemoveIfThere Tmp")
        elif isinstance(st, ast.Raise) and st.exc is None:
            hacts.append("Reraise")
        elif file_effects(st):
            fail(st, "statement with an effect on files in the error path: %s" % ast.unparse(st)[:100], fname)
    for s in t.finalbody + t.orelse:
        if file_effects(s):
            fail(s, "effect on files in finally/else", fname)
    defs.append("Definition gen_process_overlap_job_on_error : list wact := [%s]." % "; ".join(hacts))
    return defs


HEADER = """(* GENERATED by /verif/translator/py2gallina_writers.py from the current /repo sources. Do not edit. *)
From Coq Require Import List.
From TEV Require Import Model.Writers.
Import ListNotations.
"""


def main():
    repo, outdir = sys.argv[1], sys.argv[2]
    os.makedirs(outdir, exist_ok=True)
    msg, rc = "translated the writers of revise_annotation.py, gene_data.py, transposon_data.py, overlap_manager.py", 0
    try:
        text = HEADER + "\n".join(translate(repo)) + "\n"
    except Unsupported as u:
        msg, rc = "UNSUPPORTED %s" % u, 2
        text = HEADER + "(* translation refused: %s *)\nDefinition translation_refused : False := I.\n" % str(u).replace("*)", "* )")
    except (SyntaxError, OSError) as e:
        msg, rc = "UNSUPPORTED cannot read sources: %s" % e, 2
        text = HEADER + "Definition translation_refused : False := I.\n"
    print(msg)
    with open(os.path.join(outdir, "writers.status"), "w") as f:
        f.write("%s\nexit %d\n" % (msg, rc))
    p = os.path.join(outdir, "GenWriters.v")
    if not os.path.exists(p) or open(p).read() != text:
        with open(p, "w") as f:
            f.write(text)
    return rc


if __name__ == "__main__":
    sys.exit(main())
