#!/usr/bin/env python3
"""py2gallina_cache: translate the cache-reuse decisions of TE_Density to Gallina.

usage: py2gallina_cache.py <repo> <outdir>     writes <outdir>/GenCache.v and <outdir>/GenCacheEquiv.v

Sources and what is generated (fail-closed: anything outside the grammar aborts, exit status 2):

  transposon/verify_cache.py  verify_chromosome_h5_cache   -> gen_verify_cache : (nat -> Z) -> bool -> vst -> vst
      statements: if / elif / else, `return`, `<obj>.write(<path>)`, `<v> = os.path.getmtime(<path>)`,
      logger calls and docstrings (skipped); conditions: the boolean parameter reset_h5,
      os.path.exists(<path>), and / or / not, comparisons of getmtime variables.
      Paths are the parameters g_filepath (PG), t_filepath (PT), genes_input_file (PGin), tes_input_file (PTin);
      gene_data_obj may only be written to g_filepath and te_data_obj to t_filepath.
  transposon/verify_cache.py  revise_annotation            -> gen_reuse_revised : bool -> bool -> bool
      the test of the top-level `if` (os.path.exists(revised_transposons_loc), revise_anno); the `if` branch must
      import the existing file, the `else` branch must build a ReviseAnno.
  transposon/overlap_manager.py OverlapManager._is_current -> gen_is_current : bool -> Z -> Z -> Z -> bool
      `if not os.path.isfile(out): return False`, getmtime assignments, `return <comparisons joined by and/or>`.
  transposon/overlap_manager.py OverlapManager._filter_jobs  shape only: a job goes to `completed` iff _is_current(job).
  transposon/preprocess.py PreProcessor._cache_data_filepair  shape only: which expressions are passed as
      genes_input_file / tes_input_file (self.gene_in, self.te_revised) and reset_h5 (self.do_h5_cache_recreation).
"""
import ast, os, sys


class Unsupported(Exception):
    pass


def fail(node, msg, fname):
    raise Unsupported("%s:%s: %s" % (fname, getattr(node, "lineno", "?"), msg))


def is_skippable(st):
    if isinstance(st, ast.Expr):
        v = st.value
        if isinstance(v, ast.Constant) and isinstance(v.value, str):
            return True
        if isinstance(v, ast.Call) and isinstance(v.func, ast.Attribute) and v.func.attr in ("debug", "info", "warning", "warn", "error", "critical"):
            base = v.func.value
            return "logger" in ast.unparse(base)
    return False


CMP = {ast.Lt: "<?", ast.LtE: "<=?", ast.Gt: ">?", ast.GtE: ">=?"}


def find_def(scope, name, fname):
    for n in scope.body:
        if isinstance(n, ast.FunctionDef) and n.name == name:
            return n
    fail(scope, "function %s not found" % name, fname)


def find_class(tree, name, fname):
    for n in tree.body:
        if isinstance(n, ast.ClassDef) and n.name == name:
            return n
    fail(tree, "class %s not found" % name, fname)


class VC:
    """verify_chromosome_h5_cache"""
    PATHS = {"g_filepath": "PG", "t_filepath": "PT", "genes_input_file": "PGin", "tes_input_file": "PTin"}
    WRITERS = {"gene_data_obj": "g_filepath", "te_data_obj": "t_filepath"}

    def __init__(self, fname):
        self.fname = fname

    def path(self, e):
        if isinstance(e, ast.Name) and e.id in self.PATHS:
            return self.PATHS[e.id]
        fail(e, "not one of the four path parameters: %s" % ast.unparse(e), self.fname)

    def cond(self, e, zvars):
        if isinstance(e, ast.Name):
            if e.id == "reset_h5":
                return "reset_h5"
            fail(e, "boolean name %s" % e.id, self.fname)
        if isinstance(e, ast.BoolOp):
            op = " && " if isinstance(e.op, ast.And) else " || "
            return "(" + op.join(self.cond(v, zvars) for v in e.values) + ")"
        if isinstance(e, ast.UnaryOp) and isinstance(e.op, ast.Not):
            return "(negb %s)" % self.cond(e.operand, zvars)
        if isinstance(e, ast.Call) and ast.unparse(e.func) in ("os.path.exists", "os.path.isfile") and len(e.args) == 1 and not e.keywords:
            return "(fexists %s st)" % self.path(e.args[0])
        if isinstance(e, ast.Compare) and len(e.ops) == 1 and type(e.ops[0]) in CMP:
            a, b = e.left, e.comparators[0]
            if isinstance(a, ast.Name) and isinstance(b, ast.Name) and a.id in zvars and b.id in zvars:
                return "(%s %s %s)" % (a.id, CMP[type(e.ops[0])], b.id)
        fail(e, "condition %s" % ast.unparse(e)[:80], self.fname)

    def stmts(self, body, rest_after, zvars):
        """Gallina term of type vst for `body` followed by the continuation statements `rest_after`"""
        body = [s for s in body if not is_skippable(s)] + rest_after
        if not body:
            return "st"
        st, rest = body[0], body[1:]
        if isinstance(st, ast.Return):
            if st.value is not None and not (isinstance(st.value, ast.Constant) and st.value.value is None):
                fail(st, "return with a value", self.fname)
            return "st"
        if isinstance(st, ast.Expr) and isinstance(st.value, ast.Call):
            c = st.value
            if isinstance(c.func, ast.Attribute) and c.func.attr == "write" and isinstance(c.func.value, ast.Name) and len(c.args) == 1 and not c.keywords:
                obj = c.func.value.id
                if obj not in self.WRITERS or not isinstance(c.args[0], ast.Name) or c.args[0].id != self.WRITERS[obj]:
                    fail(st, "write of %s to %s" % (obj, ast.unparse(c.args[0])), self.fname)
                return "(let st := do_write clk %s st in %s)" % (self.path(c.args[0]), self.stmts(rest, [], zvars))
            fail(st, "call %s" % ast.unparse(c)[:80], self.fname)
        if isinstance(st, ast.Assign) and len(st.targets) == 1 and isinstance(st.targets[0], ast.Name):
            v = st.value
            if isinstance(v, ast.Call) and ast.unparse(v.func) == "os.path.getmtime" and len(v.args) == 1 and not v.keywords:
                x = st.targets[0].id
                return "(let %s := getmtime %s st in %s)" % (x, self.path(v.args[0]), self.stmts(rest, [], zvars | {x}))
            fail(st, "assignment %s" % ast.unparse(st)[:80], self.fname)
        if isinstance(st, ast.If):
            c = self.cond(st.test, zvars)
            return "(if %s then %s else %s)" % (c, self.stmts(st.body, rest, zvars), self.stmts(st.orelse, rest, zvars))
        fail(st, "statement %s" % type(st).__name__, self.fname)


def translate(repo):
    defs = []
    # ---- verify_cache.py
    fname = os.path.join(repo, "transposon", "verify_cache.py")
    tree = ast.parse(open(fname).read())
    fn = find_def(tree, "verify_chromosome_h5_cache", fname)
    want = ["gene_data_obj", "te_data_obj", "g_filepath", "t_filepath", "reset_h5", "cache_location", "genes_input_file",
            "tes_input_file", "chrom_id", "logger"]
    if [a.arg for a in fn.args.args] != want:
        fail(fn, "signature of verify_chromosome_h5_cache changed", fname)
    body = VC(fname).stmts(fn.body, [], set())
    defs.append("Definition gen_verify_cache (clk : nat -> Z) (reset_h5 : bool) (st : vst) : vst :=\n  %s." % body)

    fn = find_def(tree, "revise_annotation", fname)
    if [a.arg for a in fn.args.args] != ["te_data", "revise_anno", "revised_transposons_loc", "revised_cache_loc", "logger", "genome_id"]:
        fail(fn, "signature of revise_annotation changed", fname)
    b = [s for s in fn.body if not is_skippable(s)]
    if not (len(b) == 2 and isinstance(b[0], ast.If) and isinstance(b[1], ast.Return) and ast.unparse(b[1].value) == "te_data" and b[0].orelse):
        fail(fn, "revise_annotation shape (if reuse: load else: revise; return te_data)", fname)

    def rcond(e):
        if isinstance(e, ast.Name) and e.id == "revise_anno":
            return "revise_anno"
        if isinstance(e, ast.BoolOp):
            return "(" + (" && " if isinstance(e.op, ast.And) else " || ").join(rcond(v) for v in e.values) + ")"
        if isinstance(e, ast.UnaryOp) and isinstance(e.op, ast.Not):
            return "(negb %s)" % rcond(e.operand)
        if isinstance(e, ast.Call) and ast.unparse(e.func) in ("os.path.exists", "os.path.isfile") and len(e.args) == 1 \
                and ast.unparse(e.args[0]) == "revised_transposons_loc":
            return "exists_revised"
        fail(e, "condition %s" % ast.unparse(e)[:80], fname)
    reuse_src = ast.unparse(ast.Module(body=b[0].body, type_ignores=[]))
    create_src = ast.unparse(ast.Module(body=b[0].orelse, type_ignores=[]))
    if "import_filtered_TEs(revised_transposons_loc" not in reuse_src or "ReviseAnno(" in reuse_src:
        fail(b[0], "the reuse branch does not import the existing revised file", fname)
    if "ReviseAnno(" not in create_src or "whole_te_annotation" not in create_src:
        fail(b[0], "the other branch does not build a ReviseAnno", fname)
    defs.append("Definition gen_reuse_revised (exists_revised revise_anno : bool) : bool :=\n  %s." % rcond(b[0].test))

    # ---- overlap_manager.py
    fname = os.path.join(repo, "transposon", "overlap_manager.py")
    tree = ast.parse(open(fname).read())
    cls = find_class(tree, "OverlapManager", fname)
    fn = find_def(cls, "_is_current", fname)
    if [a.arg for a in fn.args.args] != ["job"]:
        fail(fn, "signature of _is_current changed", fname)
    b = [s for s in fn.body if not is_skippable(s)]
    P = {"job.output_filepath": "mo", "job.gene_path": "mg", "job.te_path": "mt"}
    if not (b and isinstance(b[0], ast.If) and not b[0].orelse and isinstance(b[0].test, ast.UnaryOp) and isinstance(b[0].test.op, ast.Not)
            and isinstance(b[0].test.operand, ast.Call) and ast.unparse(b[0].test.operand.func) in ("os.path.isfile", "os.path.exists")
            and ast.unparse(b[0].test.operand.args[0]) == "job.output_filepath"
            and len(b[0].body) == 1 and isinstance(b[0].body[0], ast.Return) and ast.unparse(b[0].body[0].value) == "False"):
        fail(fn, "_is_current does not start with `if not os.path.isfile(job.output_filepath): return False`", fname)
    env = {}

    def zexpr(e):
        if isinstance(e, ast.Name) and e.id in env:
            return env[e.id]
        if isinstance(e, ast.Call) and ast.unparse(e.func) == "os.path.getmtime" and len(e.args) == 1 and ast.unparse(e.args[0]) in P:
            return P[ast.unparse(e.args[0])]
        fail(e, "time expression %s" % ast.unparse(e)[:80], fname)

    def bexpr(e):
        if isinstance(e, ast.BoolOp):
            return "(" + (" && " if isinstance(e.op, ast.And) else " || ").join(bexpr(v) for v in e.values) + ")"
        if isinstance(e, ast.Compare) and len(e.ops) == 1 and type(e.ops[0]) in CMP:
            return "(%s %s %s)" % (zexpr(e.left), CMP[type(e.ops[0])], zexpr(e.comparators[0]))
        fail(e, "boolean expression %s" % ast.unparse(e)[:80], fname)
    ret = None
    for st in b[1:]:
        if isinstance(st, ast.Assign) and len(st.targets) == 1 and isinstance(st.targets[0], ast.Name):
            env[st.targets[0].id] = zexpr(st.value)
        elif isinstance(st, ast.Return) and ret is None:
            ret = bexpr(st.value)
        else:
            fail(st, "statement in _is_current", fname)
    if ret is None:
        fail(fn, "_is_current has no final return", fname)
    defs.append("Definition gen_is_current (exists_o : bool) (mo mg mt : Z) : bool :=\n  if negb exists_o then false else %s." % ret)

    fn = find_def(cls, "_filter_jobs", fname)
    loops = [s for s in fn.body if isinstance(s, ast.For)]
    ok = False
    if len(loops) == 1 and ast.unparse(loops[0].iter) == "jobs" and isinstance(loops[0].target, ast.Name):
        j = loops[0].target.id
        lb = [s for s in loops[0].body if not is_skippable(s)]
        if len(lb) == 1 and isinstance(lb[0], ast.If) and ast.unparse(lb[0].test) == "self._is_current(%s)" % j:
            # each branch is exactly one append (logging apart): a further branch in which a job reaches neither list is refused
            t_src = [ast.unparse(x) for x in lb[0].body if not is_skippable(x)]
            e_src = [ast.unparse(x) for x in lb[0].orelse if not is_skippable(x)]
            ok = t_src == ["completed.append(%s)" % j] and e_src == ["todo.append(%s)" % j]
    ret = [s for s in fn.body if isinstance(s, ast.Return)]
    if not ok or not ret or ast.unparse(ret[-1].value) != "(completed, todo)":
        fail(fn, "_filter_jobs shape (completed iff self._is_current(job))", fname)
    fn = find_def(cls, "calculate_overlap", fname)
    src = ast.unparse(fn)
    if "completed, todo = self._filter_jobs(jobs)" not in src or "pool.map(_process_overlap_job, todo)" not in src:
        fail(fn, "calculate_overlap does not map _process_overlap_job over the jobs that are not current", fname)

    # ---- preprocess.py: what is compared with what
    fname = os.path.join(repo, "transposon", "preprocess.py")
    tree = ast.parse(open(fname).read())
    cls = find_class(tree, "PreProcessor", fname)
    fn = find_def(cls, "_cache_data_filepair", fname)
    call = None
    for n in ast.walk(fn):
        if isinstance(n, ast.Call) and ast.unparse(n.func) == "verify_chromosome_h5_cache":
            call = n
    if call is None or call.keywords or len(call.args) != 10:
        fail(fn, "call of verify_chromosome_h5_cache", fname)
    got = [ast.unparse(a) for a in call.args]
    if got[4] != "self.do_h5_cache_recreation" or got[6] != "self.gene_in" or got[7] != "self.te_revised":
        fail(call, "verify_chromosome_h5_cache is not given (reset flag, gene annotation, REVISED TE annotation): %s" % got, fname)
    init = find_def(cls, "__init__", fname)
    isrc = ast.unparse(init)
    if "self.do_h5_cache_recreation = bool(reset_h5)" not in isrc or "self.do_transposon_revisions = bool(revise_transposons)" not in isrc:
        fail(init, "PreProcessor flags", fname)
    return defs


HEADER = """(* GENERATED by /verif/translator/py2gallina_cache.py from the current /repo sources. Do not edit. *)
From Coq Require Import ZArith Bool List.
From TEV Require Import Model.Cache Model.FS.
Open Scope Z_scope.
"""

EQUIV = """(* GENERATED: the cache decisions of the code, as translated, equal those of Model/Cache.v
   for every file-system state, every clock (ties and skew included) and every flag. *)
From Coq Require Import ZArith Bool List Lia ZifyBool.
From TEV Require Import Model.Cache Model.FS Gen.GenCache.
Import ListNotations. Open Scope Z_scope.

(* verify_chromosome_h5_cache = plan2a ++ plan2b: same writes in the same order, same state afterwards *)
Lemma gen_verify_cache_ok clk reset eg et mg mt mgin mtin :
  let s := start eg et mg mt mgin mtin in
  let ti := ties_of clk reset mgin mtin in
  let c := abs_chrom s in
  let p2a := plan2a reset ti in
  let c2a := cexec O O O p2a c in
  let p2b := plan2b true ti c2a in
  let s' := gen_verify_cache clk reset s in
  let a := abs_chrom s' in let b := cexec O O O p2b c2a in
  map write_code (v_trace s') = map cact_code (p2a ++ p2b) /\\
  GC a = GC b /\\ TC a = TC b /\\ gF a = gF b /\\ tF a = tF b.
Proof.
  cbv zeta. destruct reset, eg, et;
  cbv [gen_verify_cache start ties_of tie_at abs_chrom plan2a plan2b both stale cexec capply cG cT fold_left
       do_write fexists getmtime path_eqb v_ex v_mt v_trace v_n GC TC OV gF tF tFT oFG oFT app map write_code cact_code
       t_g1 t_t1 t_g2 t_t2];
  repeat match goal with
         | |- context [if ?c then _ else _] => let E := fresh "E" in destruct c eqn:E
         end;
  repeat split; try reflexivity; try lia.
Qed.

(* revise_annotation reuses the revised file iff the model does not revise *)
Lemma gen_reuse_revised_ok (r : option nat) revise g t w cs :
  gen_reuse_revised (match r with Some _ => true | None => false end) revise = negb (revises revise (mkD g t w r cs)).
Proof. destruct r, revise; reflexivity. Qed.

(* OverlapManager._is_current = reuse *)
Lemma gen_is_current_ok eo mo mg mt : gen_is_current eo mo mg mt = reuse true (abs_overlap eo mo mg mt).
Proof.
  unfold gen_is_current, reuse, abs_overlap. destruct eo; cbn [negb OV oFG oFT]; [|reflexivity].
  destruct (mo >? mg) eqn:E1, (mo >? mt) eqn:E2; cbn [andb orb]; try reflexivity; lia.
Qed.
"""


def main():
    repo, outdir = sys.argv[1], sys.argv[2]
    os.makedirs(outdir, exist_ok=True)
    try:
        defs = translate(repo)
        text = HEADER + "\n".join(defs) + "\n"
        rc = 0
    except Unsupported as u:
        print("UNSUPPORTED %s" % u)
        text = HEADER + "(* translation refused: %s *)\nDefinition translation_refused : False := I.\n" % str(u).replace("*)", "* )")
        rc = 2
    except (SyntaxError, OSError) as e:
        print("UNSUPPORTED cannot read sources: %s" % e)
        text = HEADER + "Definition translation_refused : False := I.\n"
        rc = 2
    for fn, content in (("GenCache.v", text), ("GenCacheEquiv.v", EQUIV)):
        p = os.path.join(outdir, fn)
        if not os.path.exists(p) or open(p).read() != content:
            with open(p, "w") as f:
                f.write(content)
    return rc


if __name__ == "__main__":
    sys.exit(main())
