#!/usr/bin/env python3
"""py2gallina_flow: translate the control flow of every function of the pipeline's modules, as far as FAILURE PROPAGATION is
concerned, into programs of Model/Flow.v, and the __main__ block of process_genome.py with its three stages marked.

usage: py2gallina_flow.py <repo> <outdir>     writes <outdir>/GenFlow.v and <outdir>/flow.status

Scope: process_genome.py and transposon/{overlap_manager, overlap, merge_data, preprocess, verify_cache, revise_annotation,
gene_data, transposon_data, import_filtered_genes, import_filtered_TEs, __init__, density_data, density2}.py - every def (methods and nested
defs too). (density_utils.py is left out: add_te_vals_to_gene_info_pandas tolerates an unknown TE name on purpose - a column of 0, as the model of C08 has it;
worker.py is left out: WorkerProcess.run ends its loop on KeyboardInterrupt on purpose - its control flow is translator py2gallina_cf's.)

Reading (trusted):
  a statement without control flow        PCall (SAux <line>) if it contains a call, a subscript, an attribute, an operator or a
                                          comprehension (anything that may raise); PSkip for constants / plain names, docstrings,
                                          imports, nested defs, `pass`, and for logging (logger.x(...), logging.x(...), print(...))
  preprocessor.process()                  PCall SPre   (receiver bound to PreProcessor(...))           } only in the __main__ block
  <mgr>.calculate_overlap()               PCall SOvl   (receiver bound to OverlapManager(...))         }
  calc_merge(job)                         PCall SMerge;  <pool>.map / imap / imap_unordered / map_async (calc_merge, jobs): PLoop (PCall SMerge)
  if / for / while                        PIf / PLoop, a test or iterable that may raise gives a PCall first; for-else / while-else refused
  return / break / continue               PExit; inside a finally clause: refused
  raise / raise <name bound by the handler>   PReraise;   raise <anything else>: PRaise
  sys.exit(<non-zero int literal>), os._exit(<non-zero>)   PRaise (the process ends with a non-zero status);
  sys.exit(<anything else>)               PExit KReturn (the process may end with status 0)
  try / except / else / finally           PTry; handler classes: none or BaseException -> CAll, Exception -> CExc, KeyboardInterrupt / SystemExit ->
                                          CKbd, anything else COther
     every handler for queue.Empty / queue.Full (also written Empty / Full) around a body that is ONE statement calling .get / .get_nowait /
     .put / .put_nowait: a poll, not a failure - PIf (body; else-clause) (handler body)
     one handler for ValueError around the single statement resource.setrlimit(...): the documented tolerance - PIf body handler
  with A as x, B: ...                     PCall (enter); PTry body [] PSkip (PCall exit) per item; contextlib.suppress / ExitStack refused;
                                          every __exit__ defined in the scope must return nothing, None or False (else refused)
  yield / await                           as any expression;  match / async for / async with / try* : refused
Fail-closed: anything else aborts with exit status 2 and the generated file does not type-check.
"""
import ast, os, re, sys

SCOPE = ["process_genome.py"] + ["transposon/%s.py" % m for m in
         ("overlap_manager", "overlap", "merge_data", "preprocess", "verify_cache", "revise_annotation", "gene_data", "transposon_data",
          "import_filtered_genes", "import_filtered_TEs", "__init__", "density_data", "density2")]
POLL_EXC = {"Empty", "Full", "queue.Empty", "queue.Full"}
POLL_CALLS = {"get", "get_nowait", "put", "put_nowait"}
LOGGERS = {"logger", "logging", "self._logger", "self.logger", "_logger", "log", "LOGGER"}


class Unsupported(Exception):
    pass


def U(e):
    return ast.unparse(e).replace(" ", "").replace("\n", "")


class FT:
    def __init__(self, fname, main=False):
        self.fname, self.main = fname, main
        self.pre_names, self.ovl_names = set(), set()

    def fail(self, node, msg):
        raise Unsupported("%s:%s: %s" % (self.fname, getattr(node, "lineno", "?"), msg))

    # ---- does evaluating e possibly raise?
    def may_raise(self, e):
        for n in ast.walk(e):
            if isinstance(n, (ast.Call, ast.Subscript, ast.Attribute, ast.BinOp, ast.UnaryOp, ast.Compare, ast.ListComp, ast.SetComp, ast.DictComp,
                              ast.GeneratorExp, ast.Yield, ast.YieldFrom, ast.Await, ast.Starred, ast.JoinedStr, ast.IfExp, ast.BoolOp, ast.NamedExpr)):
                return True
        return False

    def is_logging(self, e):
        if isinstance(e, ast.Call):
            f = e.func
            if isinstance(f, ast.Name) and f.id == "print":
                return True
            if isinstance(f, ast.Attribute) and U(f.value) in LOGGERS and f.attr in ("debug", "info", "warning", "warn", "error", "critical", "exception", "log"):
                return True
        return False

    def exit_call(self, e):
        """sys.exit / os._exit / exit / quit -> 'raise' (non-zero literal) | 'return' | None"""
        if isinstance(e, ast.Call) and U(e.func) in ("sys.exit", "os._exit", "exit", "quit", "SystemExit"):
            if len(e.args) == 1 and isinstance(e.args[0], ast.Constant) and isinstance(e.args[0].value, int) and not isinstance(e.args[0].value, bool) \
                    and e.args[0].value != 0:
                return "raise"
            return "return"
        return None

    def stage_of(self, e):
        """the stage a call expression stands for (only in the __main__ block), with loop flag"""
        if not self.main:
            return None
        for n in ast.walk(e):
            if not isinstance(n, ast.Call):
                continue
            f = n.func
            if isinstance(f, ast.Name) and f.id == "calc_merge":
                return ("SMerge", False)
            if isinstance(f, ast.Attribute) and f.attr in ("map", "imap", "imap_unordered", "map_async", "starmap", "apply", "apply_async", "submit") and \
                    any(isinstance(a, ast.Name) and a.id == "calc_merge" for a in n.args):
                return ("SMerge", True)
            if isinstance(f, ast.Name) and f.id in ("map", "filter") and any(isinstance(a, ast.Name) and a.id == "calc_merge" for a in n.args):
                return ("SMerge", True)
            if isinstance(f, ast.Attribute) and f.attr == "process" and isinstance(f.value, ast.Name) and f.value.id in self.pre_names:
                return ("SPre", False)
            if isinstance(f, ast.Attribute) and f.attr == "calculate_overlap" and isinstance(f.value, ast.Name) and f.value.id in self.ovl_names:
                return ("SOvl", False)
        for n in ast.walk(e):
            if isinstance(n, ast.Name) and n.id == "calc_merge":
                self.fail(e, "calc_merge is used in a way the translator does not read: %s" % U(e)[:80])
        return None

    def simple_stmt(self, st, exprs):
        """a statement without control flow whose evaluated expressions are exprs"""
        for e in exprs:
            x = self.exit_call(e)
            if x == "raise":
                return "PRaise"
            if x == "return":
                return "(PExit KReturn)"
        for e in exprs:
            sg = self.stage_of(e)
            if sg is not None:
                c = "(PCall %s)" % sg[0]
                return "(PLoop %s)" % c if sg[1] else c
        if all(self.is_logging(e) for e in exprs) and exprs:
            return "PSkip"
        if any(self.may_raise(e) for e in exprs):
            return "(PCall (SAux %d))" % st.lineno
        return "PSkip"

    def seq(self, items):
        items = [i for i in items if i != "PSkip"]
        if not items:
            return "PSkip"
        out = items[-1]
        for i in reversed(items[:-1]):
            out = "(PSeq %s %s)" % (i, out)
        return out

    def block(self, stmts, handler_name=None, in_final=False):
        return self.seq([self.stmt(s, handler_name, in_final) for s in stmts])

    def catch_of(self, t):
        if t is None:
            return "CAll"
        names = [U(x) for x in t.elts] if isinstance(t, ast.Tuple) else [U(t)]
        short = [n.split(".")[-1] for n in names]
        if "BaseException" in short:
            return "CAll"
        if len(short) == 1 and short[0] == "Exception":
            return "CExc"
        if len(short) == 1 and short[0] in ("KeyboardInterrupt", "SystemExit"):
            return "CKbd"
        return "COther"

    def stmt(self, st, hname, in_final):
        if isinstance(st, (ast.FunctionDef, ast.AsyncFunctionDef, ast.ClassDef, ast.Import, ast.ImportFrom, ast.Global, ast.Nonlocal, ast.Pass)):
            return "PSkip"
        if isinstance(st, ast.Expr):
            if isinstance(st.value, ast.Constant):
                return "PSkip"
            return self.simple_stmt(st, [st.value])
        if isinstance(st, ast.Assign):
            if self.main and isinstance(st.value, ast.Call) and len(st.targets) == 1 and isinstance(st.targets[0], ast.Name):
                if U(st.value.func) == "PreProcessor":
                    self.pre_names.add(st.targets[0].id)
                elif U(st.value.func) == "OverlapManager":
                    self.ovl_names.add(st.targets[0].id)
                else:
                    self.pre_names.discard(st.targets[0].id); self.ovl_names.discard(st.targets[0].id)
            return self.simple_stmt(st, [st.value] + list(st.targets))
        if isinstance(st, ast.AugAssign):
            return self.simple_stmt(st, [st.value, st.target, ast.BinOp(left=st.target, op=st.op, right=st.value)])
        if isinstance(st, ast.AnnAssign):
            return self.simple_stmt(st, [x for x in (st.value, st.target) if x is not None])
        if isinstance(st, ast.Delete):
            return self.simple_stmt(st, list(st.targets))
        if isinstance(st, ast.Assert):
            return "(PCall (SAux %d))" % st.lineno
        if isinstance(st, ast.Return):
            if in_final:
                self.fail(st, "return inside a finally clause")
            pre = self.simple_stmt(st, [st.value]) if st.value is not None else "PSkip"
            if pre in ("PRaise", "(PExit KReturn)"):
                return pre
            return self.seq([pre, "(PExit KReturn)"])
        if isinstance(st, (ast.Break, ast.Continue)):
            if in_final:
                self.fail(st, "break / continue inside a finally clause")
            return "(PExit %s)" % ("KBreak" if isinstance(st, ast.Break) else "KContinue")
        if isinstance(st, ast.Raise):
            if st.exc is None or (hname is not None and isinstance(st.exc, ast.Name) and st.exc.id == hname and st.cause is None):
                return "PReraise"
            return "PRaise"
        if isinstance(st, ast.If):
            pre = "(PCall (SAux %d))" % st.lineno if self.may_raise(st.test) and not self.is_logging(st.test) else "PSkip"
            if self.stage_of(st.test) is not None:
                self.fail(st, "a stage is run inside a condition")
            return self.seq([pre, "(PIf %s %s)" % (self.block(st.body, hname, in_final), self.block(st.orelse, hname, in_final))])
        if isinstance(st, (ast.For, ast.While)):
            if st.orelse:
                self.fail(st, "loop with an else clause")
            head = st.iter if isinstance(st, ast.For) else st.test
            if self.stage_of(head) is not None:
                self.fail(st, "a stage is run in the head of a loop")
            pre = "(PCall (SAux %d))" % st.lineno if self.may_raise(head) else "PSkip"
            body = self.block(st.body, hname, in_final)
            if isinstance(st, ast.While) and pre != "PSkip":
                body = self.seq([body, pre])          # the test is evaluated again after every iteration
            return self.seq([pre, "(PLoop %s)" % body])
        if isinstance(st, ast.With):
            body = self.block(st.body, hname, in_final)
            for it in reversed(st.items):
                c = it.context_expr
                name = U(c.func) if isinstance(c, ast.Call) else U(c)
                if name.split(".")[-1] in ("suppress", "ExitStack", "AsyncExitStack", "nullcontext") and name.split(".")[-1] != "nullcontext":
                    self.fail(st, "context manager %s may swallow exceptions" % name)
                if self.stage_of(c) is not None:
                    self.fail(st, "a stage is run as a context expression")
                body = self.seq(["(PCall (SAux %d))" % st.lineno, "(PTry %s [] PSkip (PCall (SAux %d)))" % (body, st.lineno)])
            return body
        if isinstance(st, ast.Try):
            final = self.block(st.finalbody, hname, True)
            orelse = self.block(st.orelse, hname, in_final)
            classes = [U(h.type) if h.type is not None else None for h in st.handlers]
            # polls of a queue
            if st.handlers and all(c is not None and all(x in POLL_EXC for x in (c.strip("()").split(",") if c.startswith("(") else [c])) for c in classes) \
                    and len(st.body) == 1 and any(isinstance(n, ast.Call) and isinstance(n.func, ast.Attribute) and n.func.attr in POLL_CALLS for n in ast.walk(st.body[0])):
                body = self.block(st.body, hname, in_final)
                alt = None
                for h in reversed(st.handlers):
                    hb = self.block(h.body, h.name, in_final)
                    alt = hb if alt is None else "(PIf %s %s)" % (hb, alt)
                core = "(PIf %s %s)" % (self.seq([body, orelse]), alt)
                return core if final == "PSkip" else "(PTry %s [] PSkip %s)" % (core, final)
            # the documented tolerance: the stack limit cannot be raised
            if len(st.handlers) == 1 and classes[0] == "ValueError" and len(st.body) == 1 and isinstance(st.body[0], ast.Expr) and \
                    isinstance(st.body[0].value, ast.Call) and U(st.body[0].value.func) == "resource.setrlimit" and not st.orelse and not st.finalbody:
                return "(PIf %s %s)" % (self.block(st.body, hname, in_final), self.block(st.handlers[0].body, st.handlers[0].name, in_final))
            body = self.block(st.body, hname, in_final)
            hs = "; ".join("(%s, %s)" % (self.catch_of(h.type), self.block(h.body, h.name, in_final)) for h in st.handlers)
            return "(PTry %s [%s] %s %s)" % (body, hs, orelse, final)
        self.fail(st, "unsupported statement %s" % type(st).__name__)


def ident(s):
    return re.sub(r"[^A-Za-z0-9_]", "_", s)


def check_exits(tree, fname):
    for c in ast.walk(tree):
        if isinstance(c, ast.FunctionDef) and c.name in ("__exit__", "__aexit__"):
            for n in ast.walk(c):
                if isinstance(n, ast.Return) and n.value is not None and not (isinstance(n.value, ast.Constant) and n.value.value in (None, False)):
                    raise Unsupported("%s:%s: %s returns a value: a true value swallows the exception of the with block" % (fname, n.lineno, c.name))
                if isinstance(n, (ast.Yield, ast.YieldFrom)):
                    raise Unsupported("%s:%s: generator __exit__" % (fname, n.lineno))
        if isinstance(c, ast.FunctionDef) and any(U(d).split(".")[-1] in ("contextmanager", "asynccontextmanager") for d in c.decorator_list):
            raise Unsupported("%s:%s: @contextmanager generator %s (may swallow the exception of the with block)" % (fname, c.lineno, c.name))


def translate(repo):
    out, names = [], []
    main_text = None
    for rel in SCOPE:
        tree = ast.parse(open(os.path.join(repo, rel)).read())
        check_exits(tree, rel)
        mod = ident(rel[:-3])
        def walk(node, qual):
            for ch in ast.iter_child_nodes(node):
                if isinstance(ch, (ast.FunctionDef, ast.AsyncFunctionDef)):
                    if isinstance(ch, ast.AsyncFunctionDef):
                        raise Unsupported("%s:%s: async def" % (rel, ch.lineno))
                    q = qual + [ch.name]
                    nm = "gen_fn_%s__%s_L%d" % (mod, "_".join(ident(x) for x in q), ch.lineno)
                    t = FT(rel)
                    out.append("(* %s: %s (line %d) *)\nDefinition %s : prog := %s." % (rel, ".".join(q), ch.lineno, nm, t.block(ch.body)))
                    names.append(nm)
                    walk(ch, q)
                elif isinstance(ch, ast.ClassDef):
                    walk(ch, qual + [ch.name])
                elif isinstance(ch, (ast.If, ast.For, ast.While, ast.With, ast.Try)):
                    walk(ch, qual)
        walk(tree, [])
        if rel == "process_genome.py":
            mains = [n for n in tree.body if isinstance(n, ast.If) and U(n.test) in ("__name__=='__main__'", '__name__=="__main__"', "'__main__'==__name__")]
            if len(mains) != 1 or mains[0].orelse:
                raise Unsupported("%s: expected one `if __name__ == \"__main__\":` block" % rel)
            t = FT(rel, main=True)
            body = list(mains[0].body)
            # a function of the module that runs the stages and is called, without being part of a larger expression, from the block:
            # its body takes the place of the call (only if it has no return statement: the values are not followed)
            funs = {f.name: f for f in tree.body if isinstance(f, ast.FunctionDef)}
            def runs_stages(f, seen=()):
                for x in ast.walk(f):
                    if isinstance(x, ast.Name) and x.id == "calc_merge":
                        return True
                    if isinstance(x, ast.Call) and isinstance(x.func, ast.Name) and x.func.id in funs and x.func.id not in seen and x.func.id != f.name \
                            and runs_stages(funs[x.func.id], seen + (f.name,)):
                        return True
                return False
            def inline(stmts, depth=0):
                outl = []
                for s_ in stmts:
                    if isinstance(s_, ast.Expr) and isinstance(s_.value, ast.Call) and isinstance(s_.value.func, ast.Name) and \
                            s_.value.func.id in funs and s_.value.func.id != "calc_merge" and runs_stages(funs[s_.value.func.id]):
                        fd = funs[s_.value.func.id]
                        if depth > 3 or any(isinstance(x, (ast.Return, ast.Yield, ast.YieldFrom)) for x in ast.walk(fd)):
                            raise Unsupported("%s:%s: the stages are run from %s(), which returns a value or is nested too deeply (not read)" % (rel, s_.lineno, fd.name))
                        outl += inline(list(fd.body), depth + 1)
                        continue
                    for fld in ("body", "orelse", "finalbody"):
                        if isinstance(getattr(s_, fld, None), list) and getattr(s_, fld) and isinstance(getattr(s_, fld)[0], ast.stmt):
                            setattr(s_, fld, inline(getattr(s_, fld), depth))
                    if isinstance(s_, ast.Try):
                        for h_ in s_.handlers:
                            h_.body = inline(h_.body, depth)
                    outl.append(s_)
                return outl
            body = inline(body)
            for s_ in body:
                for x in ast.walk(s_):
                    if isinstance(x, ast.Call) and isinstance(x.func, ast.Name) and x.func.id in funs and x.func.id != "calc_merge" and runs_stages(funs[x.func.id]):
                        raise Unsupported("%s:%s: the stages are run from %s(), called inside an expression (not read)" % (rel, x.lineno, x.func.id))
            main_text = t.block(body)
            if not t.pre_names or not t.ovl_names:
                raise Unsupported("%s: the __main__ block does not bind a PreProcessor(...) and an OverlapManager(...)" % rel)
    out.append("Definition gen_functions : list prog := [%s]." % "; ".join(names))
    out.append("(* process_genome.py: the __main__ block *)\nDefinition gen_main : prog := %s." % main_text)
    return out, len(names)


HEADER = """(* GENERATED by /verif/translator/py2gallina_flow.py from the current /repo sources. Do not edit. *)
From Coq Require Import List.
From TEV Require Import Model.Flow.
Import ListNotations.
"""


def main():
    repo, outdir = sys.argv[1], sys.argv[2]
    os.makedirs(outdir, exist_ok=True)
    rc = 0
    try:
        defs, n = translate(repo)
        msg = "translated the failure-propagation skeleton of %d functions and of the __main__ block" % n
        text = HEADER + "\n".join(defs) + "\n"
    except Unsupported as u:
        msg, rc = "UNSUPPORTED %s" % u, 2
        text = HEADER + "(* translation refused: %s *)\nDefinition translation_refused : False := I.\n" % str(u).replace("*)", "* )")
    except (SyntaxError, OSError, KeyError, IndexError, AttributeError, TypeError, ValueError) as e:
        msg, rc = "UNSUPPORTED cannot read sources: %s: %s" % (type(e).__name__, e), 2
        text = HEADER + "Definition translation_refused : False := I.\n"
    print(msg)
    with open(os.path.join(outdir, "flow.status"), "w") as f:
        f.write("%s\nexit %d\n" % (msg, rc))
    p = os.path.join(outdir, "GenFlow.v")
    if not os.path.exists(p) or open(p).read() != text:
        with open(p, "w") as f:
            f.write(text)
    return rc


if __name__ == "__main__":
    sys.exit(main())
