#!/usr/bin/env python3
"""py2gallina_store: translate the opening of a per-group density store (transposon/density2.py, _DensitySubset.__init__
with _init_gene_names, _init_te_names, _init_windows, _init_densities, _read_dataset, _init_strings, _init_array) into a
Gallina function over Model/Store2.v and Model/Store2FS.v.

usage: py2gallina_store.py <repo> <outdir>     writes <outdir>/GenStore.v and <outdir>/store.status

The methods are executed symbolically, statement by statement; a statement that is not in the table below is refused.
Values: a dataset key (the class constants _GENES, _TRANSPOSONS, _WINDOWS, _LEFT, _INTRA, _RIGHT, _BITMAP, which must be
seven distinct strings), a configuration list (self.cfg.gene_names / te_names / windows), the stored content of a dataset
(self.gene_names, self.transposon_names, self.windows, self._group[key][:], list(..) of one), lengths (len(..),
self.n_genes / n_transposons / n_windows = lengths of the STORED lists), dtypes (ignored: the stores of this model hold
strings, unsigned integers and doubles as the code asks).
Table (trusted):
    self._group.require_dataset(key, shape, dtype, data=.., exact=.., compression=..)
         strings:  require_strings stored n      created with n empty strings when absent; TypeError when the length differs
         integers: require_ints stored n data    created from data when absent; TypeError when the length differs
         arrays:   the four density arrays (left, intra with one window slot, right, bitmap), one require_arrays
    try: <require_dataset> except TypeError: <log>; raise          the TypeError propagates
    any(i for i in map(lambda i: i == "", xs))                    has_empty xs
    self._group[key][:] = xs                                      the dataset now holds xs
    xs != ys  on lists of strings                                 negb (eqbN xs ys)
    (a != b).any()  on integer arrays of equal length             negb (eqbZ a b)
    raise ValueError / TypeError                                  the constructor fails with that error; what was written stays
Fail-closed: anything else aborts with exit status 2 and the generated file does not type-check.
"""
import ast, os, sys

FNAME = "transposon/density2.py"
KEYS = {"_GENES": "genes", "_TRANSPOSONS": "tes", "_WINDOWS": "windows", "_LEFT": "left", "_INTRA": "intra", "_RIGHT": "right", "_BITMAP": "bitmap"}
CFG = {"gene_names": ("genes", "(c_genes c)"), "te_names": ("tes", "(c_tes c)"), "windows": ("windows", "(c_windows c)")}
STOREDPROP = {"gene_names": "genes", "transposon_names": "tes", "windows": "windows"}
NPROP = {"n_genes": "genes", "n_transposons": "tes", "n_windows": "windows"}
FIELD = {"genes": "s_genes", "tes": "s_tes", "windows": "s_windows"}


class Unsupported(Exception):
    pass


def fail(node, msg):
    raise Unsupported("%s:%s: %s" % (FNAME, getattr(node, "lineno", "?"), msg))


def dotted(e):
    parts = []
    while isinstance(e, ast.Attribute):
        parts.append(e.attr)
        e = e.value
    if isinstance(e, ast.Name):
        parts.append(e.id)
        return ".".join(reversed(parts))
    return None


class Sym:
    """symbolic execution of one call chain; self.cur[field] = Gallina variable holding Some <stored list> after a successful require"""

    def __init__(self, cls):
        self.cls = cls
        self.methods = {n.name: n for n in cls.body if isinstance(n, ast.FunctionDef)}
        self.n = 0

    def fresh(self, p):
        self.n += 1
        return "%s%d" % (p, self.n)

    def value(self, e, env):
        """-> (kind, payload)"""
        if isinstance(e, ast.Name):
            if e.id in env:
                return env[e.id]
            if e.id in ("_STR_DTYPE", "bool"):
                return ("dtype", e.id)
            fail(e, "unbound name %s" % e.id)
        if isinstance(e, ast.Constant):
            return ("const", e.value)
        d = dotted(e)
        if d and d.startswith("self._") and d[5:] in KEYS:
            return ("key", KEYS[d[5:]])
        if d and d.startswith("self.cfg.") and d[9:] in CFG:
            return ("list", CFG[d[9:]][0], CFG[d[9:]][1])
        if d == "self.cfg.compression":
            return ("dtype", "compression")
        if d and d.startswith("self.") and d[5:] in STOREDPROP:
            f = STOREDPROP[d[5:]]
            return ("list", f, env["__stored_" + f]) if "__stored_" + f in env else fail(e, "%s read before the dataset exists" % d)
        if d and d.startswith("self.") and d[5:] in NPROP:
            f = NPROP[d[5:]]
            if "__stored_" + f not in env:
                fail(e, "%s read before the dataset exists" % d)
            return ("nat", "(length %s)" % env["__stored_" + f])
        if d in ("np.uint", "np.double", "np.float64", "np.uint64"):
            return ("dtype", d)
        if isinstance(e, ast.Call) and isinstance(e.func, ast.Name) and e.func.id == "len" and len(e.args) == 1:
            v = self.value(e.args[0], env)
            if v[0] == "list":
                return ("nat", "(length %s)" % v[2])
        if isinstance(e, ast.Call) and isinstance(e.func, ast.Name) and e.func.id == "list" and len(e.args) == 1:
            v = self.value(e.args[0], env)
            if v[0] == "list":
                return v
        # self._group[key][:]
        if isinstance(e, ast.Subscript) and isinstance(e.slice, ast.Slice) and e.slice.lower is None and e.slice.upper is None \
                and isinstance(e.value, ast.Subscript) and dotted(e.value.value) == "self._group":
            k = self.value(e.value.slice, env)
            if k[0] == "key" and k[1] in FIELD and "__stored_" + k[1] in env:
                return ("list", k[1], env["__stored_" + k[1]])
        if isinstance(e, ast.Tuple):
            return ("tuple", [self.value(x, env) for x in e.elts])
        # any(i for i in map(lambda i: i == "", xs))
        if isinstance(e, ast.Call) and isinstance(e.func, ast.Name) and e.func.id == "any" and len(e.args) == 1 and isinstance(e.args[0], ast.GeneratorExp):
            ge = e.args[0]
            if len(ge.generators) == 1 and not ge.generators[0].ifs and isinstance(ge.elt, ast.Name) and isinstance(ge.generators[0].target, ast.Name) \
                    and ge.elt.id == ge.generators[0].target.id and isinstance(ge.generators[0].iter, ast.Call) and dotted(ge.generators[0].iter.func) == "map" \
                    and len(ge.generators[0].iter.args) == 2 and isinstance(ge.generators[0].iter.args[0], ast.Lambda):
                lam = ge.generators[0].iter.args[0]
                lb = lam.body
                if len(lam.args.args) == 1 and isinstance(lb, ast.Compare) and len(lb.ops) == 1 and isinstance(lb.ops[0], ast.Eq) \
                        and isinstance(lb.left, ast.Name) and lb.left.id == lam.args.args[0].arg and isinstance(lb.comparators[0], ast.Constant) \
                        and lb.comparators[0].value == "":
                    v = self.value(ge.generators[0].iter.args[1], env)
                    if v[0] == "list" and v[1] in ("genes", "tes"):
                        return ("bool", "(has_empty %s)" % v[2])
        if isinstance(e, ast.Compare) and len(e.ops) == 1:
            a, b = self.value(e.left, env), self.value(e.comparators[0], env)
            if isinstance(e.ops[0], ast.NotEq) and a[0] == "list" and b[0] == "list" and a[1] == b[1] and a[1] in ("genes", "tes"):
                return ("bool", "(negb (eqbN %s %s))" % (a[2], b[2]))
            if isinstance(e.ops[0], ast.IsNot) and b == ("const", None) and a[0] == "list":
                return ("bool", "true")
        # (a != b).any()
        if isinstance(e, ast.Call) and isinstance(e.func, ast.Attribute) and e.func.attr == "any" and not e.args and isinstance(e.func.value, ast.Compare) \
                and len(e.func.value.ops) == 1 and isinstance(e.func.value.ops[0], ast.NotEq):
            a, b = self.value(e.func.value.left, env), self.value(e.func.value.comparators[0], env)
            if a[0] == "list" and b[0] == "list" and a[1] == b[1] == "windows":
                return ("bool", "(negb (eqbZ %s %s))" % (a[2], b[2]))
        if isinstance(e, ast.BoolOp) and isinstance(e.op, ast.And):
            vs = [self.value(x, env) for x in e.values]
            if all(v[0] == "bool" for v in vs):
                return ("bool", "(" + " && ".join(v[1] for v in vs) + ")")
        fail(e, "expression %s" % ast.unparse(e)[:100])

    def is_log(self, st):
        if isinstance(st, ast.Expr) and isinstance(st.value, ast.Constant):
            return True
        if isinstance(st, ast.Expr) and isinstance(st.value, ast.Call):
            d = dotted(st.value.func) or ""
            if d.split(".")[-1] in ("debug", "info", "warning", "error", "critical") and "logger" in d:
                return True
        if isinstance(st, ast.Assign) and len(st.targets) == 1 and isinstance(st.targets[0], ast.Name) and st.targets[0].id == "msg":
            return True
        return False

    def require(self, call, env, k):
        """self._group.require_dataset(key, shape, dtype, data=.., exact=.., compression=..) or the partial `require(...)`"""
        args = list(call.args)
        kws = {kw.arg: kw.value for kw in call.keywords}
        if len(args) != 3 or not set(kws) <= {"data", "exact", "compression"}:
            fail(call, "arguments of require_dataset: %s" % ast.unparse(call)[:120])
        key, shape = self.value(args[0], env), self.value(args[1], env)
        if key[0] != "key":
            fail(call, "dataset key %s" % ast.unparse(args[0]))
        f = key[1]
        if f in ("genes", "tes"):
            if shape[0] != "nat":
                fail(call, "shape of a string dataset")
            v = self.fresh("l")
            env2 = dict(env); env2["__stored_" + f] = v
            return "(match require_strings (%s g) %s with inl e => (Some e, g) | inr %s => let g := set_%s %s g in %s end)" % (
                FIELD[f], shape[1], v, f, v, k(env2))
        if f == "windows":
            data = self.value(kws["data"], env) if "data" in kws else ("const", None)
            if shape[0] != "nat" or data[0] != "list" or data[1] != "windows":
                fail(call, "shape / data of the windows dataset")
            v = self.fresh("l")
            env2 = dict(env); env2["__stored_windows"] = v
            return "(match require_ints (s_windows g) %s %s with inl e => (Some e, g) | inr %s => let g := set_windows %s g in %s end)" % (
                shape[1], data[2], v, v, k(env2))
        # the four arrays
        if shape[0] != "tuple" or len(shape[1]) != 3:
            fail(call, "shape of a density array")
        dims = shape[1]
        want = [("nat", "(length %s)" % env.get("__stored_tes")), None, ("nat", "(length %s)" % env.get("__stored_genes"))]
        if dims[0] != want[0] or dims[2] != want[2]:
            fail(call, "density array %s is not shaped (number of TE names, .., number of genes)" % f)
        mid = dims[1]
        if f == "intra":
            if mid != ("const", 1):
                fail(call, "the intragenic array must have one window slot")
        elif mid != ("nat", "(length %s)" % env.get("__stored_windows")):
            fail(call, "density array %s is not shaped (.., number of windows, ..)" % f)
        if not (isinstance(kws.get("exact"), ast.Constant) and kws["exact"].value is True):
            fail(call, "density array %s not required with exact=True" % f)
        env2 = dict(env); env2["__arrays"] = env.get("__arrays", ()) + (f,)
        if set(env2["__arrays"]) == {"left", "intra", "right", "bitmap"}:
            return ("(match init_data (s_data g) (length %s, length %s, length %s) with inl e => (Some e, g) | inr d_ => let g := set_data d_ g in %s end)"
                    % (env["__stored_tes"], env["__stored_windows"], env["__stored_genes"], k(env2)))
        return k(env2)

    def stmts(self, ss, env, k, depth=0):
        """k(env, retval) -> text continues after the block; the text has type option oerr * grp, with g : grp in scope"""
        if not ss:
            return k(env, None)
        st, rest = ss[0], ss[1:]
        cont = lambda e2=env: self.stmts(rest, e2, k, depth)
        if self.is_log(st):
            return cont()
        if isinstance(st, ast.Return):
            return k(env, None if st.value is None else self.value(st.value, env))
        if isinstance(st, ast.Raise):
            u = ast.unparse(st)
            if "ValueError" in u:
                return "(Some ValueErr, g)"
            if "TypeError" in u or (st.exc is not None and isinstance(st.exc, ast.Name) and env.get(st.exc.id) == ("exc", "TypeErr")):
                return "(Some TypeErr, g)"
            fail(st, "raise %s" % u)
        if isinstance(st, ast.Assign) and len(st.targets) == 1:
            tgt, val = st.targets[0], st.value
            if isinstance(tgt, ast.Name):
                if isinstance(val, ast.Call) and dotted(val.func) == "partial" and val.args and dotted(val.args[0]) == "self._group.require_dataset":
                    env2 = dict(env); env2[tgt.id] = ("partial_require", {kw.arg: kw.value for kw in val.keywords})
                    return cont(env2)
                env2 = dict(env); env2[tgt.id] = self.value(val, env)
                return cont(env2)
            # self._group[key][:] = xs
            if isinstance(tgt, ast.Subscript) and isinstance(tgt.slice, ast.Slice) and isinstance(tgt.value, ast.Subscript) and dotted(tgt.value.value) == "self._group":
                key = self.value(tgt.value.slice, env)
                xs = self.value(val, env)
                if key[0] == "key" and key[1] in ("genes", "tes") and xs[0] == "list" and xs[1] == key[1]:
                    v = self.fresh("w")
                    env2 = dict(env); env2["__stored_" + key[1]] = v
                    return "(let %s := %s in let g := set_%s %s g in %s)" % (v, xs[2], key[1], v, cont(env2))
            # attribute set-up of the object (self.left = self._group[...], ...)
            if isinstance(tgt, ast.Attribute) and isinstance(tgt.value, ast.Name) and tgt.value.id == "self":
                src = ast.unparse(val)
                if "require" in src or "[:] =" in src or "create" in src:
                    fail(st, "attribute assignment with an effect: %s" % ast.unparse(st)[:100])
                return cont()
            fail(st, "assignment %s" % ast.unparse(st)[:100])
        if isinstance(st, ast.If):
            c = self.value(st.test, env)
            if c[0] != "bool":
                fail(st, "condition %s" % ast.unparse(st.test))
            a = self.stmts(st.body + rest, env, k, depth)
            b = self.stmts(st.orelse + rest, env, k, depth)
            return "(if %s then %s else %s)" % (c[1], a, b)
        if isinstance(st, ast.Try):
            # try: <require_dataset> except TypeError as err: <log>; raise err
            if len(st.body) == 1 and isinstance(st.body[0], ast.Expr) and isinstance(st.body[0].value, ast.Call) \
                    and dotted(st.body[0].value.func) == "self._group.require_dataset" and len(st.handlers) == 1 \
                    and dotted(st.handlers[0].type) == "TypeError" and not st.orelse and not st.finalbody:
                hb = [s for s in st.handlers[0].body if not self.is_log(s)]
                if len(hb) == 1 and isinstance(hb[0], ast.Raise):
                    return self.require(st.body[0].value, env, lambda e2: self.stmts(rest, e2, k, depth))
            fail(st, "try block %s" % ast.unparse(st)[:120])
        if isinstance(st, ast.Expr) and isinstance(st.value, ast.Call):
            call = st.value
            d = dotted(call.func) or ""
            if d == "self._group.require_dataset":
                return self.require(call, env, lambda e2: self.stmts(rest, e2, k, depth))
            if isinstance(call.func, ast.Name) and env.get(call.func.id, (None,))[0] == "partial_require":
                merged = ast.Call(func=call.func, args=call.args, keywords=list(call.keywords) +
                                  [ast.keyword(arg=a, value=v) for a, v in env[call.func.id][1].items()])
                return self.require(merged, env, lambda e2: self.stmts(rest, e2, k, depth))
            if d.startswith("self.") and d[5:] in self.methods and d[5:].startswith("_"):
                return self.inline(d[5:], call, env, lambda e2, rv: self.stmts(rest, e2, k, depth), depth)
            fail(st, "call %s" % ast.unparse(call)[:100])
        fail(st, "statement %s" % type(st).__name__)

    def inline(self, name, call, env, k, depth):
        if depth > 4:
            fail(call, "inlining depth")
        m = self.methods[name]
        params = [a.arg for a in m.args.args][1:]
        defaults = dict(zip(params[len(params) - len(m.args.defaults):], m.args.defaults))
        given = {}
        for p, a in zip(params, call.args):
            given[p] = a
        for kw in call.keywords:
            given[kw.arg] = kw.value
        henv = {x: v for x, v in env.items() if x.startswith("__")}
        for p in params:
            if p in given:
                henv[p] = self.value(given[p], env)
            elif p in defaults:
                henv[p] = self.value(defaults[p], env)
            else:
                fail(call, "missing argument %s of %s" % (p, name))

        def back(e2, rv):
            env3 = dict(env)
            env3.update({x: v for x, v in e2.items() if x.startswith("__")})
            return k(env3, rv)
        # keyword pass-through of data/exact into require_dataset: names resolve in henv
        return self.stmts(m.body, henv, back, depth + 1)


def translate(repo):
    tree = ast.parse(open(os.path.join(repo, FNAME)).read())
    cls = [n for n in tree.body if isinstance(n, ast.ClassDef) and n.name == "_DensitySubset"]
    if not cls:
        fail(tree, "class _DensitySubset not found")
    cls = cls[0]
    consts = {}
    for n in cls.body:
        if isinstance(n, ast.Assign) and len(n.targets) == 1 and isinstance(n.targets[0], ast.Name) and n.targets[0].id in KEYS \
                and isinstance(n.value, ast.Constant) and isinstance(n.value.value, str):
            consts[n.targets[0].id] = n.value.value
    if set(consts) != set(KEYS) or len(set(consts.values())) != len(KEYS):
        fail(cls, "the dataset keys are not seven distinct string constants: %s" % consts)
    sym = Sym(cls)
    init = sym.methods["__init__"]
    if [a.arg for a in init.args.args][:4] != ["self", "file", "prefix", "config"]:
        fail(init, "signature of _DensitySubset.__init__")
    body = []
    for st in init.body:
        u = ast.unparse(st).replace(" ", "")
        if u in ("self._logger=loggerorlogging.getLogger(self.__class__.__name__)", "self.file=file", "self._prefix=prefix", "self.cfg=config",
                 "self._group=file.require_group(prefix)"):
            continue
        body.append(st)
    text = sym.stmts(body, {}, lambda env, rv: "(None, g)")
    return ("Definition gen_open (c : cfg) (g : grp) : option oerr * grp :=\n  %s.\n" % text)


HEADER = """(* GENERATED by /verif/translator/py2gallina_store.py from the current /repo sources. Do not edit. *)
From Coq Require Import List Bool Arith NArith ZArith.
From TEV Require Import Model.Store2 Model.Store2FS.
Import ListNotations.
"""


def main():
    repo, outdir = sys.argv[1], sys.argv[2]
    os.makedirs(outdir, exist_ok=True)
    msg, rc = "translated %s _DensitySubset.__init__ and the methods it calls" % FNAME, 0
    try:
        text = HEADER + translate(repo)
    except Unsupported as u:
        msg, rc = "UNSUPPORTED %s" % u, 2
        text = HEADER + "(* translation refused: %s *)\nDefinition translation_refused : False := I.\n" % str(u).replace("*)", "* )")
    except (SyntaxError, OSError, KeyError, IndexError, AttributeError) as e:
        msg, rc = "UNSUPPORTED cannot read sources: %s: %s" % (type(e).__name__, e), 2
        text = HEADER + "Definition translation_refused : False := I.\n"
    print(msg)
    with open(os.path.join(outdir, "store.status"), "w") as f:
        f.write("%s\nexit %d\n" % (msg, rc))
    p = os.path.join(outdir, "GenStore.v")
    if not os.path.exists(p) or open(p).read() != text:
        with open(p, "w") as f:
            f.write(text)
    return rc


if __name__ == "__main__":
    sys.exit(main())
