#!/usr/bin/env python3
"""py2gallina: translate the arithmetic / predicate kernel of TE_Density to Gallina.

usage: py2gallina.py <repo> <outdir>      writes <outdir>/Gen.v and <outdir>/GenEquiv.v

Fail-closed: any construct outside the small grammar below, a missing function, a changed
signature or an unexpected decorator aborts with exit status 2 and a message naming the
source location.  Reading of the Python constructs (this is part of the trusted base):

  * a numpy array expression over `transposons.starts/stops` or a DataFrame column is read
    pointwise, as the scalar expression for one TE row;
  * np.maximum/minimum/add/subtract -> Z.max/Z.min/+/-;  np.clip(x, lo, None) -> Z.max lo x;
  * `if c: raise` -> None (functions that can raise return `option Z`);
  * logger calls, docstrings and string assignments are skipped;
  * Python ints are unbounded; float64 is exact on the integers the pipeline meets (< 2^53);
  * range(a, b, c) -> Base.PyRange.py_range a b c.
"""
import ast, os, sys


class Unsupported(Exception):
    pass


def fail(node, msg, fname="?"):
    raise Unsupported("%s:%s: %s" % (fname, getattr(node, "lineno", "?"), msg))


CMP = {ast.Lt: "<?", ast.LtE: "<=?", ast.Gt: ">?", ast.GtE: ">=?", ast.Eq: "=?"}
ALLOWED_DECOS = {"staticmethod", "property", "classmethod", "functools.lru_cache(maxsize=None)"}


class Ctx:
    """Translation context of one function."""

    def __init__(self, fname, names, attrs, calls, optional):
        self.fname = fname
        self.names = dict(names)      # python local/param name -> gallina term
        self.attrs = attrs            # (base, attr) -> gallina term
        self.calls = calls            # (base, method) -> (gallina function applied to implicit args, returns_option)
        self.optional = optional      # set of gallina function names returning option
        self.can_fail = False


def expr(e, cx):
    if isinstance(e, ast.Constant) and isinstance(e.value, int) and not isinstance(e.value, bool):
        return "(%d)" % e.value
    if isinstance(e, ast.Name):
        if e.id not in cx.names:
            fail(e, "unbound name %s" % e.id, cx.fname)
        return cx.names[e.id]
    if isinstance(e, ast.Attribute) and isinstance(e.value, ast.Name):
        k = (e.value.id, e.attr)
        if k not in cx.attrs:
            fail(e, "unknown attribute %s.%s" % k, cx.fname)
        return cx.attrs[k]
    if isinstance(e, ast.BinOp):
        a, b = expr(e.left, cx), expr(e.right, cx)
        if isinstance(e.op, ast.Add):
            return "(%s + %s)" % (a, b)
        if isinstance(e.op, ast.Sub):
            return "(%s - %s)" % (a, b)
        if isinstance(e.op, ast.Mult):
            return "(%s * %s)" % (a, b)
        if isinstance(e.op, ast.BitAnd):
            return "(%s && %s)" % (a, b)
        fail(e, "operator %s" % type(e.op).__name__, cx.fname)
    if isinstance(e, ast.BoolOp):
        op = "&&" if isinstance(e.op, ast.And) else "||"
        return "(" + (" %s " % op).join(expr(v, cx) for v in e.values) + ")"
    if isinstance(e, ast.Compare):
        if len(e.ops) != 1:
            fail(e, "chained comparison", cx.fname)
        op = type(e.ops[0])
        a, b = expr(e.left, cx), expr(e.comparators[0], cx)
        if op is ast.NotEq:
            return "(negb (%s =? %s))" % (a, b)
        if op not in CMP:
            fail(e, "comparison %s" % op.__name__, cx.fname)
        return "(%s %s %s)" % (a, CMP[op], b)
    if isinstance(e, ast.Call):
        f = e.func
        if e.keywords:
            fail(e, "keyword arguments", cx.fname)
        if isinstance(f, ast.Attribute) and isinstance(f.value, ast.Name) and f.value.id == "np":
            args = e.args
            if f.attr in ("maximum", "minimum", "add", "subtract") and len(args) == 2:
                a, b = expr(args[0], cx), expr(args[1], cx)
                return {"maximum": "(Z.max %s %s)", "minimum": "(Z.min %s %s)",
                        "add": "(%s + %s)", "subtract": "(%s - %s)"}[f.attr] % (a, b)
            if f.attr == "clip" and len(args) == 3 and isinstance(args[2], ast.Constant) and args[2].value is None:
                return "(Z.max %s %s)" % (expr(args[1], cx), expr(args[0], cx))
            fail(e, "numpy call np.%s/%d" % (f.attr, len(args)), cx.fname)
        if isinstance(f, ast.Attribute) and isinstance(f.value, ast.Name):
            k = (f.value.id, f.attr)
            if k in cx.calls:
                g, opt = cx.calls[k]
                if opt:
                    fail(e, "call of a raising function inside an expression", cx.fname)
                return "(%s %s)" % (g, " ".join(expr(a, cx) for a in e.args))
        fail(e, "call %s" % ast.dump(f)[:80], cx.fname)
    fail(e, "expression %s" % type(e).__name__, cx.fname)


def is_skippable(st):
    if isinstance(st, ast.Expr):
        v = st.value
        if isinstance(v, ast.Constant) and isinstance(v.value, str):
            return True
        if isinstance(v, ast.Call) and isinstance(v.func, ast.Attribute):
            base = v.func.value
            chain = []
            while isinstance(base, ast.Attribute):
                chain.append(base.attr)
                base = base.value
            if isinstance(base, ast.Name):
                chain.append(base.id)
            if any("logger" in c for c in chain) and v.func.attr in ("debug", "info", "warning", "warn", "error", "critical"):
                return True
    if isinstance(st, ast.Assign) and len(st.targets) == 1 and isinstance(st.targets[0], ast.Name) \
            and isinstance(st.value, (ast.Constant, ast.JoinedStr)) and (isinstance(st.value, ast.JoinedStr) or isinstance(st.value.value, str)):
        return True
    return False


def is_raise_block(body):
    body = [s for s in body if not is_skippable(s)]
    return len(body) == 1 and isinstance(body[0], ast.Raise)


def opt_call(e, cx):
    """If e is a direct call of an option-returning generated function, return its term."""
    if isinstance(e, ast.Call) and isinstance(e.func, ast.Attribute) and isinstance(e.func.value, ast.Name):
        k = (e.func.value.id, e.func.attr)
        if k in cx.calls and cx.calls[k][1]:
            if e.keywords:
                fail(e, "keyword arguments", cx.fname)
            return "(%s %s)" % (cx.calls[k][0], " ".join(expr(a, cx) for a in e.args))
    return None


def stmts(body, cx):
    """Translate a statement list to a Gallina term of type `option Z`."""
    body = [s for s in body if not is_skippable(s)]
    if not body:
        fail(None, "function falls off its end", cx.fname)
    st, rest = body[0], body[1:]
    if isinstance(st, ast.Return):
        if rest:
            fail(st, "code after return", cx.fname)
        oc = opt_call(st.value, cx)
        if oc:
            cx.can_fail = True
            return oc
        return "(Some %s)" % expr(st.value, cx)
    if isinstance(st, ast.Assign):
        if len(st.targets) != 1 or not isinstance(st.targets[0], ast.Name):
            fail(st, "assignment target", cx.fname)
        x = st.targets[0].id
        oc = opt_call(st.value, cx)
        if oc:
            cx.can_fail = True
            cx.names[x] = x
            return "(match %s with Some %s => %s | None => None end)" % (oc, x, stmts(rest, cx))
        v = expr(st.value, cx)
        cx.names[x] = x
        return "(let %s := %s in %s)" % (x, v, stmts(rest, cx))
    if isinstance(st, ast.If):
        c = expr(st.test, cx)
        if is_raise_block(st.body) and not st.orelse:
            cx.can_fail = True
            return "(if %s then None else %s)" % (c, stmts(rest, cx))
        # if c: return a   else: raise
        tb = [s for s in st.body if not is_skippable(s)]
        if len(tb) == 1 and isinstance(tb[0], ast.Return) and st.orelse and is_raise_block(st.orelse) and not rest:
            cx.can_fail = True
            return "(if %s then Some %s else None)" % (c, expr(tb[0].value, cx))
        # if c: x = e ...   (no else): conditional re-assignment of already bound names
        if not st.orelse and all(isinstance(s, ast.Assign) and len(s.targets) == 1 and isinstance(s.targets[0], ast.Name)
                                 and s.targets[0].id in cx.names for s in tb) and tb:
            out = ""
            close = ""
            for s in tb:
                x = s.targets[0].id
                out += "(let %s := (if %s then %s else %s) in " % (x, c, expr(s.value, cx), cx.names[x])
                close += ")"
                cx.names[x] = x
            return out + stmts(rest, cx) + close
        fail(st, "if-statement shape", cx.fname)
    fail(st, "statement %s" % type(st).__name__, cx.fname)


def deco_ok(fn, fname):
    for d in fn.decorator_list:
        if ast.unparse(d) not in ALLOWED_DECOS:
            fail(d, "decorator %s on %s" % (ast.unparse(d), fn.name), fname)


def find_class(tree, name, fname):
    for n in tree.body:
        if isinstance(n, ast.ClassDef) and n.name == name:
            return n
    fail(tree, "class %s not found" % name, fname)


def find_def(scope, name, fname):
    for n in scope.body:
        if isinstance(n, ast.FunctionDef) and n.name == name:
            deco_ok(n, fname)
            return n
    fail(scope, "function %s not found" % name, fname)


def params(fn):
    if fn.args.vararg or fn.args.kwarg or fn.args.kwonlyargs:
        raise Unsupported("%s: star-arguments" % fn.name)
    return [a.arg for a in fn.args.args]


SELF3 = "gs ge glen"


def translate(repo):
    out = []      # (gallina name, binder string, body, is_option)
    optional = set()

    def emit(name, binders, body, opt):
        out.append((name, binders, body, opt))
        if opt:
            optional.add(name)

    # ---------------- gene_datum.py
    fname = os.path.join(repo, "transposon", "gene_datum.py")
    tree = ast.parse(open(fname).read())
    cls = find_class(tree, "GeneDatum", fname)
    init = find_def(cls, "__init__", fname)
    # attribute bindings of __init__: self.start <- .Start[...], self.stop <- .Stop[...], self.length <- .Length[...]
    col_of = {}
    derived = {}
    for st in init.body:
        if isinstance(st, ast.Assign) and len(st.targets) == 1 and isinstance(st.targets[0], ast.Attribute) \
                and isinstance(st.targets[0].value, ast.Name) and st.targets[0].value.id == "self":
            a = st.targets[0].attr
            v = st.value
            if isinstance(v, ast.Subscript) and isinstance(v.value, ast.Attribute) and isinstance(v.value.value, ast.Name) \
                    and v.value.value.id == "gene_dataframe":
                col_of[a] = v.value.attr
            elif a in ("left_win_stop", "right_win_start"):
                derived[a] = v
    want = {"start": "Start", "stop": "Stop", "length": "Length"}
    for a, c in want.items():
        if col_of.get(a) != c:
            fail(init, "GeneDatum.%s is not read from column %s (got %s)" % (a, c, col_of.get(a)), fname)
    for a in ("left_win_stop", "right_win_start"):
        if a not in derived:
            fail(init, "GeneDatum.%s not assigned in __init__" % a, fname)
    self_attrs = {("self", "start"): "gs", ("self", "stop"): "ge", ("self", "length"): "glen"}
    cx = Ctx(fname, {}, self_attrs, {}, optional)
    emit("gen_lws", SELF3, expr(derived["left_win_stop"], cx), False)
    emit("gen_rws", SELF3, expr(derived["right_win_start"], cx), False)
    self_attrs = dict(self_attrs)
    self_attrs[("self", "left_win_stop")] = "(gen_lws %s)" % SELF3
    self_attrs[("self", "right_win_start")] = "(gen_rws %s)" % SELF3
    calls = {}
    for meth, gname, extra in [("win_length", "gen_win_length", ["window"]),
                               ("left_win_start", "gen_left_win_start", ["window"]),
                               ("right_win_stop", "gen_right_win_stop", ["window"]),
                               ("validate_window", "gen_validate_window", ["left_win_start", "window_length"]),
                               ("divisor_left", "gen_divisor_left", ["window"]),
                               ("divisor_right", "gen_divisor_right", ["window"])]:
        fn = find_def(cls, meth, fname)
        if params(fn) != ["self"] + extra:
            fail(fn, "signature of %s changed: %s" % (meth, params(fn)), fname)
        cx = Ctx(fname, {p: p for p in extra}, self_attrs, calls, optional)
        body = stmts(fn.body, cx)
        opt = cx.can_fail
        if not opt:
            # strip the Some of a function that cannot raise
            body = "(match %s with Some r => r | None => 0 end)" % body
        emit(gname, SELF3 + " " + " ".join(extra), body, opt)
        calls[("self", meth)] = ("%s %s" % (gname, SELF3), opt)
    # divisor_intra(self, window): `window is None` is the only accepted call
    fn = find_def(cls, "divisor_intra", fname)
    if params(fn) != ["self", "window"]:
        fail(fn, "signature of divisor_intra changed", fname)
    b = [s for s in fn.body if not is_skippable(s)]
    ok = (len(b) == 1 and isinstance(b[0], ast.If) and isinstance(b[0].test, ast.Compare)
          and isinstance(b[0].test.left, ast.Name) and b[0].test.left.id == "window"
          and isinstance(b[0].test.ops[0], ast.Is) and isinstance(b[0].test.comparators[0], ast.Constant)
          and b[0].test.comparators[0].value is None)
    if not ok:
        fail(fn, "divisor_intra shape", fname)
    tb = [s for s in b[0].body if not is_skippable(s)]
    if not (len(tb) == 1 and isinstance(tb[0], ast.Return) and is_raise_block(b[0].orelse)):
        fail(fn, "divisor_intra shape", fname)
    cx = Ctx(fname, {}, self_attrs, calls, optional)
    emit("gen_divisor_intra", SELF3 + " (window_is_none : bool)",
         "(if window_is_none then Some %s else None)" % expr(tb[0].value, cx), True)
    gd_calls = {("gene_datum", m): v for (_s, m), v in calls.items()}
    gd_attrs = {("gene_datum", a): v for (_s, a), v in self_attrs.items()}

    # ---------------- overlap.py
    fname = os.path.join(repo, "transposon", "overlap.py")
    tree = ast.parse(open(fname).read())
    cls = find_class(tree, "Overlap", fname)
    attrs = dict(gd_attrs)
    attrs[("transposons", "starts")] = "ts"
    attrs[("transposons", "stops")] = "te"
    for meth, extra in [("left", ["window"]), ("intra", []), ("right", ["window"])]:
        fn = find_def(cls, meth, fname)
        if params(fn) != ["gene_datum", "transposons"] + extra:
            fail(fn, "signature of Overlap.%s changed: %s" % (meth, params(fn)), fname)
        cx = Ctx(fname, {p: p for p in extra}, attrs, gd_calls, optional)
        body = stmts(fn.body, cx)
        if cx.can_fail:
            fail(fn, "Overlap.%s may raise" % meth, fname)
        emit("gen_overlap_" + meth, SELF3 + " ts te " + " ".join(extra),
             "(match %s with Some r => r | None => 0 end)" % body, False)

    # ---------------- revise_annotation.py
    fname = os.path.join(repo, "transposon", "revise_annotation.py")
    tree = ast.parse(open(fname).read())
    cls = find_class(tree, "ReviseAnno", fname)
    # hit_scan_overlapping: x = self.search_frame[MASK].index.to_list(); return x
    fn = find_def(cls, "hit_scan_overlapping", fname)
    if params(fn) != ["self", "seed_start", "seed_stop"]:
        fail(fn, "signature of hit_scan_overlapping changed", fname)
    b = [s for s in fn.body if not is_skippable(s)]
    mask = None
    if len(b) == 2 and isinstance(b[0], ast.Assign) and isinstance(b[1], ast.Return) and isinstance(b[1].value, ast.Name) \
            and isinstance(b[0].targets[0], ast.Name) and b[0].targets[0].id == b[1].value.id:
        v = b[0].value
        if ast.unparse(v).replace("\n", "").startswith("self.search_frame[") and ast.unparse(v).endswith("].index.to_list()"):
            sub = v.func.value.value            # Call(.to_list) -> Attribute(.index) -> Subscript
            if isinstance(sub, ast.Subscript) and ast.unparse(sub.value) == "self.search_frame":
                mask = sub.slice
    if mask is None:
        fail(fn, "hit_scan_overlapping shape", fname)

    class FrameCol(ast.NodeTransformer):
        def visit_Attribute(self, node):
            if ast.unparse(node) == "self.search_frame.Start":
                return ast.copy_location(ast.Name(id="__ts", ctx=ast.Load()), node)
            if ast.unparse(node) == "self.search_frame.Stop":
                return ast.copy_location(ast.Name(id="__te", ctx=ast.Load()), node)
            return self.generic_visit(node)
    mask = FrameCol().visit(mask)
    cx = Ctx(fname, {"seed_start": "seed_start", "seed_stop": "seed_stop", "__ts": "ts", "__te": "te"}, {}, {}, optional)
    emit("gen_hit", "seed_start seed_stop ts", expr(mask, cx), False)
    out[-1] = ("gen_hit", "(seed_start seed_stop ts : Z)", out[-1][2], "bool")

    # determine_seed_stop: for h in hits: if ROW.Stop > seed_stop: seed_stop = ROW.Stop ; return seed_stop
    fn = find_def(cls, "determine_seed_stop", fname)
    if params(fn) != ["self", "seed_stop", "array_of_hits"]:
        fail(fn, "signature of determine_seed_stop changed", fname)
    b = [s for s in fn.body if not is_skippable(s)]
    if not (len(b) == 2 and isinstance(b[0], ast.For) and isinstance(b[1], ast.Return) and ast.unparse(b[1].value) == "seed_stop"
            and isinstance(b[0].target, ast.Name) and ast.unparse(b[0].iter) == "array_of_hits" and not b[0].orelse):
        fail(fn, "determine_seed_stop shape", fname)
    hv = b[0].target.id

    class RowStop(ast.NodeTransformer):
        def visit_Attribute(self, node):
            u = ast.unparse(node).replace(" ", "").replace("\n", "")
            if u in ("self.search_frame.loc[%s].Stop" % hv, "self.search_frame.loc[%s,].Stop" % hv,
                     "self.search_frame.loc[(%s,)].Stop" % hv):
                return ast.copy_location(ast.Name(id="__stop", ctx=ast.Load()), node)
            return self.generic_visit(node)
    loop_body = [RowStop().visit(s) for s in b[0].body]
    cx = Ctx(fname, {"seed_stop": "seed_stop", "__stop": "stop"}, {}, {}, optional)
    body = stmts(loop_body + [ast.Return(value=ast.Name(id="seed_stop", ctx=ast.Load()))], cx)
    if cx.can_fail:
        fail(fn, "determine_seed_stop loop may raise", fname)
    emit("gen_stop_step", "seed_stop stop", "(match %s with Some r => r | None => 0 end)" % body, False)

    # adjust_length: df["Length"] = df["Stop"] - df["Start"] + 1 ; return df
    fn = find_def(cls, "adjust_length", fname)
    b = [s for s in fn.body if not is_skippable(s)]
    if not (len(b) == 2 and isinstance(b[0], ast.Assign) and ast.unparse(b[0].targets[0]) == "panda_dataframe['Length']"
            and isinstance(b[1], ast.Return) and ast.unparse(b[1].value) == "panda_dataframe"):
        fail(fn, "adjust_length shape", fname)

    class Col(ast.NodeTransformer):
        def visit_Subscript(self, node):
            u = ast.unparse(node)
            if u == "panda_dataframe['Start']":
                return ast.copy_location(ast.Name(id="__s", ctx=ast.Load()), node)
            if u == "panda_dataframe['Stop']":
                return ast.copy_location(ast.Name(id="__e", ctx=ast.Load()), node)
            return self.generic_visit(node)
    cx = Ctx(fname, {"__s": "s", "__e": "e"}, {}, {}, optional)
    emit("gen_length", "s e", expr(Col().visit(b[0].value), cx), False)

    # ---------------- process_genome.py : the window range
    fname = os.path.join(repo, "process_genome.py")
    tree = ast.parse(open(fname).read())
    fn = find_def(tree, "parse_algorithm_config", fname)
    keys = {}
    rng = None
    for st in ast.walk(fn):
        if isinstance(st, ast.Assign) and isinstance(st.value, ast.Call) and ast.unparse(st.value.func) == "parser.getint":
            a = st.value.args
            if len(a) == 2 and a[0].value == "density_parameters":
                keys[st.targets[0].id] = a[1].value
        if isinstance(st, ast.Call) and isinstance(st.func, ast.Name) and st.func.id == "range":
            if rng is not None:
                fail(st, "two range() calls", fname)
            rng = st
    cfgname = {"first_window_size": "first", "window_delta": "delta", "last_window_size": "last"}
    if rng is None or len(rng.args) != 3 or sorted(keys.values()) != sorted(cfgname):
        fail(fn, "parse_algorithm_config shape (range/3 over the three config keys)", fname)
    cx = Ctx(fname, {v: cfgname[k] for v, k in keys.items()}, {}, {}, optional)
    a, b_, c = (expr(x, cx) for x in rng.args)
    ret = [s for s in fn.body if isinstance(s, ast.Return)]
    if not ret or ast.unparse(ret[0].value) != "alg_param":
        fail(fn, "parse_algorithm_config does not return alg_param", fname)
    out.append(("gen_windows", "(first delta last : Z)", "py_range %s %s %s" % (a, b_, c), "option (list Z)"))
    return out


HEADER = """(* GENERATED by /verif/translator/py2gallina.py from the current /repo sources. Do not edit. *)
From Coq Require Import ZArith Bool List.
From TEV Require Import Base.PyRange.
Open Scope Z_scope.
"""

EQUIV = """(* GENERATED: equivalence of the translated kernel with the hand-written model.
   Each lemma is closed by the same fixed script; a change of the Python arithmetic that is
   not an identity over Z makes the corresponding lemma fail. *)
From Coq Require Import ZArith Bool List Lia ZifyBool.
From TEV Require Import Base.PyRange Model.Kernel Gen.Gen.
Open Scope Z_scope.

Ltac kernel_eq :=
  intros;
  cbv beta iota zeta delta [gen_lws gen_rws gen_win_length gen_left_win_start gen_right_win_stop gen_validate_window
                  gen_divisor_left gen_divisor_right gen_divisor_intra gen_overlap_left gen_overlap_intra
                  gen_overlap_right gen_hit gen_stop_step gen_length gen_windows
                  lws rws winlen lwstart rwstop div_left div_intra div_right ovl ovl_left ovl_intra ovl_right
                  hitb stop_step te_length];
  repeat match goal with
         | |- context [if ?c then _ else _] => let E := fresh "E" in destruct c eqn:E
         end;
  try reflexivity; try (f_equal; lia); try lia; try (exfalso; lia).

Lemma gen_lws_ok gs ge glen : gen_lws gs ge glen = lws gs.                    Proof. kernel_eq. Qed.
Lemma gen_rws_ok gs ge glen : gen_rws gs ge glen = rws ge.                    Proof. kernel_eq. Qed.
Lemma gen_win_length_ok gs ge glen w : gen_win_length gs ge glen w = winlen w. Proof. kernel_eq. Qed.
Lemma gen_left_win_start_ok gs ge glen w : gen_left_win_start gs ge glen w = lwstart gs w. Proof. kernel_eq. Qed.
Lemma gen_right_win_stop_ok gs ge glen w : gen_right_win_stop gs ge glen w = rwstop ge w.  Proof. kernel_eq. Qed.
Lemma gen_divisor_left_ok gs ge glen w : gen_divisor_left gs ge glen w = Some (div_left gs w). Proof. kernel_eq. Qed.
Lemma gen_divisor_intra_ok gs ge glen : gen_divisor_intra gs ge glen true = Some (div_intra glen). Proof. kernel_eq. Qed.
Lemma gen_divisor_right_ok gs ge glen w : gen_divisor_right gs ge glen w = div_right w.    Proof. kernel_eq. Qed.
Lemma gen_overlap_left_ok gs ge glen ts te w : gen_overlap_left gs ge glen ts te w = ovl_left gs w ts te. Proof. kernel_eq. Qed.
Lemma gen_overlap_intra_ok gs ge glen ts te : gen_overlap_intra gs ge glen ts te = ovl_intra gs ge ts te. Proof. kernel_eq. Qed.
Lemma gen_overlap_right_ok gs ge glen ts te w : gen_overlap_right gs ge glen ts te w = ovl_right ge w ts te. Proof. kernel_eq. Qed.
Lemma gen_hit_ok s e ts : gen_hit s e ts = hitb s e ts.                        Proof. kernel_eq. Qed.
Lemma gen_stop_step_ok acc stop : gen_stop_step acc stop = stop_step acc stop. Proof. kernel_eq. Qed.
Lemma gen_length_ok s e : gen_length s e = te_length s e.                      Proof. kernel_eq. Qed.
Lemma gen_windows_ok first delta last : gen_windows first delta last = py_range first (last + 1) delta.
Proof. intros; unfold gen_windows; f_equal; lia. Qed.
"""


def main():
    repo, outdir = sys.argv[1], sys.argv[2]
    os.makedirs(outdir, exist_ok=True)
    try:
        defs = translate(repo)
    except (Unsupported, SyntaxError, OSError) as u:
        # fail closed: a stub that does not compile, so that every theorem resting on the kernel is unproved
        print("UNSUPPORTED %s" % u)
        stub = HEADER + "(* translation refused: %s *)\nDefinition translation_refused : False := I.\n" % str(u).replace("*)", "* )")
        p = os.path.join(outdir, "Gen.v")
        if not os.path.exists(p) or open(p).read() != stub:
            open(p, "w").write(stub)
        p = os.path.join(outdir, "GenEquiv.v")
        if not os.path.exists(p) or open(p).read() != EQUIV:
            open(p, "w").write(EQUIV)
        return 2
    text = HEADER
    for name, binders, body, kind in defs:
        if kind is True:
            ty = "option Z"
        elif kind is False:
            ty = "Z"
        else:
            ty = kind
        if not binders.startswith("("):
            bs = binders.split()
            zs = [b for b in bs]
            binders = " ".join("(%s : Z)" % b if ":" not in b else b for b in _group(binders))
        text += "Definition %s %s : %s :=\n  %s.\n" % (name, binders, ty, body)
    for fn, content in (("Gen.v", text), ("GenEquiv.v", EQUIV)):
        p = os.path.join(outdir, fn)
        if not os.path.exists(p) or open(p).read() != content:
            with open(p, "w") as f:
                f.write(content)
    return 0


def _group(binders):
    """split 'a b (c : bool) d' into ['a','b','(c : bool)','d']"""
    res, depth, cur = [], 0, ""
    for ch in binders:
        if ch == "(":
            depth += 1
        if ch == ")":
            depth -= 1
        if ch == " " and depth == 0:
            if cur:
                res.append(cur)
            cur = ""
        else:
            cur += ch
    if cur:
        res.append(cur)
    return [r if r.startswith("(") else r for r in res]


if __name__ == "__main__":
    sys.exit(main())
